#!/bin/sh
# Offline setup: parse every TLA+ module (SANY), make sure the cached universes exist, smoke-import flowpaths.
set -e
cd "$(dirname "$0")"
mkdir -p evidence replay .scratch universe
for m in spec/*.tla; do
  ( cd spec && java -cp /opt/veriftools/tla/tla2tools.jar:/opt/veriftools/tla/CommunityModules-deps.jar tla2sany.SANY "$(basename "$m")" >/tmp/sany_$$.log 2>&1 ) || { cat /tmp/sany_$$.log; rm -f /tmp/sany_$$.log; echo "SANY failed on $m"; exit 1; }
done
rm -f /tmp/sany_$$.log
/venv/bin/python -c "
import sys; sys.path.insert(0,'lib')
import vlib
vlib.universe('dag',4,k=3,w=3,cap=12)
vlib.universe('cyc',3,maxe=9,k=2,w=2,l=1,cap=6)
vlib.universe('cyc',4,maxe=6,k=2,w=2,l=1,cap=4)
vlib.universe('dag',4,k=2,w=3,cap=12,zero=True)
vlib.universe('cyc',3,maxe=9,k=2,w=2,l=1,cap=6,zero=True)
vlib.universe('motif',6,maxe=0,k=2,w=2,l=1,cap=6)
vlib.euler_universe(3,9,3,400)
vlib.euler_universe(4,6,2,24)
"
PYTHONPATH=/repo /venv/bin/python -W ignore -c "import flowpaths" 2>/dev/null
echo "setup ok"
