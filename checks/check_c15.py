"""C15 - MinGenSet and MinSetCover return true optima whenever one exists."""
import os
import random
import shutil
import vlib
import compose as C
import pipeline as P

PROP = "C15"


def universe(tier, res):
    quick = tier == "quick"
    sc = vlib.scratch_dir()
    out = os.path.join(sc, "sets.ndjson")
    env = {"GEN_MAXN": "9" if quick else "12", "GEN_MAXL": "3" if quick else "4", "GEN_MAXT": "12" if quick else "16",
           "GEN_CAP": "350" if quick else "3000", "OUT_FILE": out}
    r = vlib.run_tlc("Gen_Sets", "Gen.cfg", env=env, timeout=1800)
    if not vlib.tlc_ok(r) or not os.path.exists(out):
        raise vlib.Machinery("Gen_Sets failed: " + r["stdout"][-1500:])
    res.add_tlc(r)
    recs = vlib.read_ndjson(out)
    shutil.rmtree(sc, ignore_errors=True)
    return recs


def run(tier, seed):
    res = vlib.Result(PROP, tier, seed)
    rng = random.Random(seed)
    known = vlib.load_known()
    uni = universe(tier, res)
    insts = []
    for u in uni:
        if u["kind"] == "genset":
            base = {"cls": "MinGenSet", "numbers": u["numbers"], "total": u["total"], "wt": "int", "mult": u["mult"], "pcs": []}
            if u["mult"] > 1:
                base["max_multiplicity"] = u["mult"]
            variants = [dict(base)]
            v = dict(base); v["remove_complement_values"] = False; variants.append(v)
            if u["mult"] == 1:
                v = dict(base); v["remove_sums_of_two"] = True; variants.append(v)
                v = dict(base); v["wt"] = "float"; variants.append(v)
                v = dict(base); v["lowerbound"] = 2; variants.append(v)
                # a partition constraint: the numbers themselves when they sum to the total, else [total]
                if sum(u["numbers"]) == u["total"] and len(u["numbers"]) >= 2:
                    v = dict(base); v["partition_constraints"] = [list(u["numbers"])]; v["pcs"] = [list(u["numbers"])]; variants.append(v)
            if u["mult"] == 1 and u["total"] >= 4:
                # two partition constraints (each a list of positive integers summing to the total; the generating set must
                # split into groups with those sums, once per constraint): the first one binding as much as the last
                def part(t, n):
                    cuts = sorted(rng.sample(range(1, t), n - 1))
                    return [b - a for a, b in zip([0] + cuts, cuts + [t])]
                p1, p2 = part(u["total"], rng.choice([2, 3]) if u["total"] >= 4 else 2), part(u["total"], 2)
                v = dict(base); v["partition_constraints"] = [p1, p2]; v["pcs"] = [p1, p2]; variants.insert(2, v)
                v = dict(base); v["partition_constraints"] = [p2, p1]; v["pcs"] = [p2, p1]; variants.insert(2, v)
            # the same numbers as a LIST with repeated values (the answer depends on the set of values only)
            rep = list(u["numbers"]) + [rng.choice(u["numbers"]) for _ in range(rng.randint(1, 4))]
            v = dict(base); v["numbers"] = rep; v["remove_complement_values"] = False; variants.insert(2, v)
            for v in (variants if tier != "quick" else variants[:5] + rng.sample(variants[5:], min(1, max(0, len(variants) - 5)))):
                insts.append(v)
        else:
            b = {"cls": "MinSetCover", "universe": u["universe"], "subsets": u["subsets"],
                 "sweights": u["weights"][:len(u["subsets"])], "subset_weights": u["weights"][:len(u["subsets"])]}
            insts.append(b)
            if len(u["subsets"]) >= 2 and rng.random() < 0.5:
                # the same element set listed twice with different prices, the cheaper copy last
                j = rng.randrange(len(u["subsets"]))
                wj = u["weights"][j]
                d = {"cls": "MinSetCover", "universe": u["universe"], "subsets": u["subsets"] + [u["subsets"][j]]}
                d["sweights"] = d["subset_weights"] = [w + (3 if i == j else 0) for i, w in enumerate(u["weights"][:len(u["subsets"])])] + [wj]
                insts.append(d)
            if rng.random() < 0.2:
                c = dict(b); c.pop("subset_weights"); c["sweights"] = [1] * len(u["subsets"]); insts.append(c)   # default weights = 1
    C.with_ids(insts)
    recs = P.drive(insts)
    for r in recs:
        r.setdefault("mult", 1)
        r.setdefault("pcs", [])
        for k in ("numbers", "universe", "subsets", "sweights"):
            r.setdefault(k, [])
        r.setdefault("total", 0)
    verd = vlib.validate_records("Trace_Sets", "Trace.cfg", recs, PROP, res)
    byid = {r["id"]: r for r in recs}
    for rid, (app, fails) in verd.items():
        res.traces += 1
        res.nontrivial.add(rid)
        for c in app:
            res.clause(c, 1, 1 if c in fails else 0)
        for c in fails:
            res.violation(c, byid[rid])
    # minimality / existence for MinGenSet by the adversary
    adv = []
    for r in recs:
        if r["cls"] != "MinGenSet" or r["ctor_exc"] != "none" or r.get("timeout"):
            continue
        if r["wt"] != "int":
            continue     # float generators: the integer adversary is one-sided only (DESIGN C15)
        a = {"id": r["id"], "numbers": r["numbers"], "total": r["total"], "mult": r["mult"], "pcs": r["pcs"]}
        lbd = r.get("lowerbound", 1)
        if r["solved"]:
            a["bound"] = len(r["sol_list"]) - 1
            if lbd > 1 and a["bound"] < lbd:
                continue      # sizes below the caller's lower bound were excluded by the caller
            a["kind"] = "Minimal"
            res.count_class("adversary_minimality_runs")
        else:
            a["bound"] = max(len(r["numbers"]), 1) + 1
            a["kind"] = "Exists"
            res.count_class("adversary_existence_runs")
        adv.append(a)
    wit = P.adversary("Adv_GenSet", adv, res, cfg="Adv_GenSet.cfg")
    for a in adv:
        bad = a["id"] in wit
        c = "MinimumSize" if a["kind"] == "Minimal" else "GeneratingSetExistsButUnsolved"
        res.clause(c, 1, 1 if bad else 0)
        if bad:
            w = min(wit[a["id"]], key=lambda t: t[2])
            res.violation(c, byid[a["id"]], {"witness_size": w[2], "bound": a["bound"]})
    for r in recs:
        if r["solved"]:
            res.count_class("solved_" + r["cls"])
        if r["cls"] == "MinGenSet" and r["mult"] > 1:
            res.count_class("multiplicity>1")
        if r.get("pcs"):
            res.count_class("with_partition_constraints")
    res.evaluations = len(recs)
    res.samples = [{k: recs[0].get(k) for k in ("cls", "numbers", "total", "mult", "solved", "sol_list")},
                   {k: recs[-1].get(k) for k in ("cls", "universe", "subsets", "sweights", "solved", "sol_list")}]
    res.rule = ("TLC-enumerated number sets from 1..9 (thorough 1..12), length <=3 (4), totals <=12 (16), multiplicity 1..3 with "
                "max(numbers) <= mult*total; variants: complement removal off, sums-of-two, float, lower bound, partition "
                "constraint; set-cover families over a 4-element universe with 3 weight vectors (all 2^n covers enumerated by TLC); "
                "GenSet adversary bounded by the observed size")
    return res.finish(known, require_classes=["solved_MinGenSet", "solved_MinSetCover", "multiplicity>1", "adversary_minimality_runs"])


def replay(path, seed):
    import json
    d = json.load(open(path))
    o = P.drive([d["record"]])[0]
    print(json.dumps({k: o.get(k) for k in ("cls", "numbers", "total", "mult", "solved", "sol_list", "trace")}))
    return 0
