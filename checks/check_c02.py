"""C02 - flow decompositions explain every non-ignored edge's (node's) flow exactly."""
import random
import vlib
import compose as C
import pipeline as P

PROP = "C02"


def instances(tier, rng):
    quick = tier == "quick"
    dag = vlib.universe("dag", 4, k=3, w=3, cap=12)
    cyc = vlib.universe("cyc", 3, maxe=9, k=2, w=2, l=1, cap=6)
    cyc4 = vlib.universe("cyc", 4, maxe=6, k=2, w=2, l=1, cap=4)
    dag_s = C.spread(dag, 120 if quick else 495)
    cyc_s = C.spread(cyc, 30 if quick else 72) + C.spread(cyc4, 70 if quick else 900)
    insts = []
    # conserving flows that leave some edges at 0 (legal: "non-negative flow values"); with an ignored edge / a constraint
    # over a zero edge the MILP route is taken and the zero edges must still be explained by exactly 0
    zdag = [u for u in vlib.universe("dag", 4, k=2, w=3, cap=12, zero=True) if 0 in u["ew"]]
    for u in C.spread(zdag, 60 if quick else 400):
        zero_edges = [list(e) for e, w in zip(u["edges"], u["ew"]) if w == 0]
        pos_edges = [list(e) for e, w in zip(u["edges"], u["ew"]) if w > 0]
        for cls in ("kFlowDecomp", "MinFlowDecomp"):
            cfgs = [{"opt": {"optimize_with_greedy": False}}, {}]
            if pos_edges and len(u["edges"]) >= 3:
                cfgs.append({"ign": [rng.choice(pos_edges)]})
                cfgs.append({"ign": [rng.choice(pos_edges)], "cons": [[rng.choice(zero_edges)]]})
            cfgs.append({"cons": [[rng.choice(zero_edges)]]})
            for cfg in cfgs:
                r = C.base(u, cls)
                r["wt"] = "int"
                if cls == "kFlowDecomp":
                    r["k"] = len(u["proutes"]) + (1 if "cons" in cfg else 0)
                r.update(cfg)
                insts.append(r)
    for u in dag_s:
        kp = len(u["proutes"])
        for cls in ("kFlowDecomp", "MinFlowDecomp"):
            routes = [  # every way a solution can come about
                {},                                                     # default: greedy first
                {"opt": {"optimize_with_greedy": False}},               # MILP
                {"opt": {"optimize_with_greedy": False, "optimize_with_flow_safe_paths": False}},
                {"mode": "node"},
                {"mode": "node", "opt": {"optimize_with_greedy": False}},
                {"wt": "float", "num": 1, "den": 2},
                {"wt": "float", "num": 1, "den": 10, "opt": {"optimize_with_greedy": False}},
                {"wt": "float", "float_data": False},                   # integer data, float weights requested
                # integer weights requested on data that is (partly) non-integral: whatever is reported solved must
                # still explain the data as given, not a truncation of it
                {"wt": "int", "num": 1, "den": 2, "opt": {"optimize_with_greedy": False}},
                {"wt": "int", "num": 3, "den": 2, "mode": "node"},
                {"wt": "int", "num": 1, "den": 2, "ign": [list(rng.choice(u["edges"]))]},
            ]
            if cls == "kFlowDecomp":
                routes.append({"sws": sorted(set(u["pweights"])) + list(u["pweights"])})   # given-weights model
                routes.append({"k": kp + 1})
                # the given-weights model on node-weighted input, with an ignored element, with heavier spare weights
                gw = sorted(set(u["pweights"])) + list(u["pweights"]) + [max(u["pweights"]) + 2]
                routes.append({"mode": "node", "sws": gw})
                routes.append({"sws": gw, "ign": [list(rng.choice(u["edges"]))]})
                routes.append({"mode": "node", "sws": gw, "ign": [rng.choice(u["nodes"])]})
            else:
                routes.append({"opt": {"optimize_with_guessed_weights": True}})
                routes.append({"mode": "node", "opt": {"optimize_with_guessed_weights": True}})
            e = rng.choice(u["edges"])
            routes.append({"ign": [list(e)], "opt": {"optimize_with_greedy": False}})
            p = rng.choice(u["proutes"])
            es = C.route_edges(p)
            routes.append({"cons": [es[:2]]})
            routes.append({"cons": [es[-1:]], "opt": {"optimize_with_greedy": False}})
            for cfg in (routes if not quick else routes[:5] + rng.sample(routes[5:], 5)):
                r = C.base(u, cls, cfg.get("mode", "edge"))
                r["wt"] = "int"
                if cls == "kFlowDecomp":
                    r["k"] = kp
                r.update({k: v for k, v in cfg.items() if k != "mode"})
                insts.append(r)
    single = {"nodes": ["a"], "edges": [], "ew": [], "nw": [3], "proutes": [["a"]], "pweights": [3]}
    for cls in ("kFlowDecomp", "MinFlowDecomp", "kFlowDecompCycles", "MinFlowDecompCycles"):      # single-node, node-weighted
        r = C.base(single, cls, "node")
        r["wt"] = "int"
        if cls.startswith("k"):
            r["k"] = 1
        insts.append(r)
    # cyclic graphs with ZERO-flow edges whose endpoints are unbalanced over the remaining edges (a positive edge ignored):
    # whatever is reported solved must explain 0 on the zero-flow edges
    zc = [u for u in vlib.universe("cyc", 3, maxe=9, k=2, w=2, l=1, cap=6, zero=True) if 0 in u["ew"]]
    cyc4z = [z for z in (C.zeroed(u) for u in vlib.universe("cyc", 4, maxe=6, k=2, w=2, l=1, cap=4)) if z]
    cyc4z += [z for z in (C.zeroed(u) for u in C.motifs()[1]) if z]
    for u in (C.spread(zc, 20) + C.spread(cyc4z, 60) if quick else zc + C.spread(cyc4z, 600)):
        pos = [list(e) for e, w in zip(u["edges"], u["ew"]) if w > 0]
        for ign in ([rng.choice(pos)], rng.sample(pos, min(2, len(pos)))):
            for cls in ("kFlowDecompCycles", "MinFlowDecompCycles"):
                r = C.base(u, cls)
                r["wt"] = "int"
                r["ign"] = ign
                if cls == "kFlowDecompCycles":
                    r["k"] = max(1, len(u["proutes"])) + rng.choice([0, 1])
                insts.append(r)
    # the same in NODE mode, DAG and cyclic: nodes whose value is exactly 0 (they are not "nodes without a value": nothing may
    # pass through them) next to ignored nodes of positive value (which leave their neighbours unbalanced)
    dagz = [z for z in (C.zeroed(u) for u in vlib.universe("dag", 4, k=3, w=3, cap=12)) if z and 0 in z["nw"]]
    cycz = [z for z in cyc4z if 0 in z["nw"]]
    for u in (C.spread(dagz, 30) + C.spread(cycz, 30) if quick else C.spread(dagz, 300) + C.spread(cycz, 300)):
        cycl = u in cycz
        pos = [v for v, w in zip(u["nodes"], u["nw"]) if w > 0]
        if len(pos) < 2:
            continue
        for ign in ([rng.choice(pos)], rng.sample(pos, 2)):
            for cls in (("kFlowDecompCycles", "MinFlowDecompCycles") if cycl else ("kFlowDecomp", "MinFlowDecomp")):
                r = C.base(u, cls, "node")
                r["wt"] = "int"
                r["ign"] = ign
                if cls.startswith("k"):
                    r["k"] = max(1, len(u["proutes"])) + rng.choice([0, 1])
                    if cls == "kFlowDecomp":
                        r["opt"] = {"optimize_with_greedy": False}
                insts.append(r)
    for u in cyc_s:
        kp = len(u["proutes"])
        for cls in ("kFlowDecompCycles", "MinFlowDecompCycles"):
            routes = [
                {},
                {"mode": "node"},
                {"wt": "float", "num": 1, "den": 1},
                {"opt": {"optimize_with_safe_sequences": False}},
                {"opt": {"optimize_with_safe_sequences": True, "optimize_with_safe_sequences_fix_zero_edges": True}},
                # fixings through queued bounds, under a finite time limit with the wrapper's own timeout armed as well
                {"opt": {"optimize_with_safe_sequences": True, "optimize_with_safe_sequences_fix_zero_edges": True,
                         "optimize_with_safe_sequences_fix_via_bounds": True},
                 "sopt": {"time_limit": 300, "use_also_custom_timeout": True}},
            ]
            if cls == "MinFlowDecompCycles":
                routes.append({"opt": {"optimize_with_guessed_weights": True}})
                routes.append({"mode": "node", "opt": {"optimize_with_guessed_weights": True}})
            e = rng.choice(u["edges"])
            routes.append({"ign": [list(e)]})
            es = C.route_edges(rng.choice(u["proutes"]))
            routes.append({"cons": [es[:2]]})
            for cfg in (routes if not quick else routes[:3] + rng.sample(routes[3:], 3)):
                r = C.base(u, cls, cfg.get("mode", "edge"))
                r["wt"] = "int"
                if cls == "kFlowDecompCycles":
                    r["k"] = kp
                r.update({k: v for k, v in cfg.items() if k != "mode"})
                insts.append(r)
    return C.with_ids(insts)


def run(tier, seed):
    res = vlib.Result(PROP, tier, seed)
    rng = random.Random(seed)
    known = vlib.load_known()
    insts = instances(tier, rng)
    recs = P.drive(insts)
    res.evaluations = len(recs)
    P.validate(recs, PROP, res)
    for r in recs:
        if r["solved"]:
            res.count_class("solved")
            if r["ninv"] == 0:
                res.count_class("solved_without_solver(greedy)")
            else:
                res.count_class("solved_by_milp")
            if r["mode"] == "node":
                res.count_class("solved_node_mode")
            if r["ign"]:
                res.count_class("solved_with_ignored")
            if r["cons"]:
                res.count_class("solved_with_constraints")
            if r["sws"] or r["opt"].get("optimize_with_guessed_weights"):
                res.count_class("solved_given_weights_route")
            if r["wt"] == "float":
                res.count_class("solved_float")
            if r["cls"].endswith("Cycles"):
                res.count_class("solved_cyclic")
    res.samples = [P.brief(r) for r in recs[:2] + recs[-1:]]
    res.rule = ("planted conserving flows on TLC-enumerated DAGs / cyclic digraphs x {kFlowDecomp, MinFlowDecomp, "
                "kFlowDecompCycles, MinFlowDecompCycles} x every route to a solution (greedy, MILP, given weights, node "
                "mode, ignored element, constraint, float); non-trivial = solved run on which FDExact was evaluated")
    return res.finish(known, require_classes=["solved", "solved_without_solver(greedy)", "solved_by_milp",
                                              "solved_node_mode", "solved_cyclic", "solved_float"])


def replay(path, seed):
    import json
    d = json.load(open(path))
    recs = P.drive([d["record"]])
    res = vlib.Result(PROP, "quick", seed)
    P.validate(recs, PROP, res)
    print(json.dumps(P.brief(recs[0])))
    return 1 if res.violations else 0
