"""Shared by C07 (k-Least-Absolute-Errors) and C08 (k-Minimum-Path-Error)."""
import vlib
import compose as C
import pipeline as P


def perturb(u, rng, nmax=2):
    """non-conserving variant of a planted flow: +-1 on up to nmax edges (floor 0, not all zero)."""
    v = dict(u)
    ew = list(u["ew"])
    for i in rng.sample(range(len(ew)), min(nmax, len(ew))):
        ew[i] = max(0, ew[i] + rng.choice([-1, 1, 1, 2]))
    if all(x == 0 for x in ew):
        ew[0] = 1
    v["ew"] = ew
    nw = list(u["nw"])
    for i in rng.sample(range(len(nw)), min(nmax, len(nw))):
        nw[i] = max(0, nw[i] + rng.choice([-1, 1, 2]))
    if all(x == 0 for x in nw):
        nw[0] = 1
    v["nw"] = nw
    return v


def wild(u, rng, values=(0, 1, 2, 6, 9)):
    """arbitrary non-negative weights, far from any flow: large per-element errors are unavoidable
    (a low-weight bridge under heavy paths).  Not all zero."""
    v = dict(u)
    v["ew"] = [rng.choice(values) for _ in u["ew"]]
    if all(x == 0 for x in v["ew"]):
        v["ew"][0] = 6
    v["nw"] = [rng.choice(values) for _ in u["nw"]]
    if all(x == 0 for x in v["nw"]):
        v["nw"][0] = 6
    return v


def bridge_patterns(u, heavy=9, light=1):
    """all elements heavy except one light one (each in turn): when the light element is a bridge shared by several
    routes, the optimal error on it exceeds every weight of the instance."""
    out = []
    for i in range(len(u["ew"])):
        v = dict(u)
        v["ew"] = [heavy] * len(u["ew"])
        v["ew"][i] = light
        v["nw"] = list(u["nw"])
        out.append(v)
    return out


def code_maxf(r):
    """the largest value among the elements the model does NOT ignore (user-ignored and zero-scaled elements excluded) -
    what the code's own bound w_max = k * max f is computed from; used only to emulate that bound."""
    out_ = {tuple(x) if isinstance(x, list) else x for x in r.get("ign", [])}
    out_ |= {tuple(t[0]) if isinstance(t[0], list) else t[0] for t in r.get("escale", []) if t[1] == 0}
    if r["mode"] == "node":
        vals = [w for v, w in zip(r["nodes"], r["nw"]) if w != vlib.NONE and v not in out_]
    else:
        vals = [w for e, w in zip(r["edges"], r["ew"]) if w != vlib.NONE and tuple(e) not in out_]
    return max(vals) if vals else 0


def fit_adversary(recs, res, exact, clause="OptimalObjective"):
    adv = []
    for r in recs:
        if r.get("timeout") or not r["solved"] or not r["got_solution"] or r["obj"] == vlib.NONE:
            continue
        if not exact(r):
            continue
        a = dict(r)
        vals = [x for x in (r["nw"] if r["mode"] == "node" else r["ew"]) if x != vlib.NONE]
        maxf = max(vals) if vals else 0
        a["want"] = "better"
        a["k"] = r["k"] if r["k"] != vlib.NONE else r["k_model"]
        a["tol"] = 0 if r["wt"] == "int" else 20
        obs_units = (r["obj"] * r["den"]) // (r["num"] * vlib.UNIT if hasattr(vlib, "UNIT") else r["num"] * 10000)
        # keep the adversary's search space small (bounding it can only lose witnesses): with slacks the branching grows
        # with the observed total slack, so large observed objectives are left to the consistency clauses
        is_mpe = r["cls"].startswith("kMinPathError")
        if (is_mpe and (obs_units > 4 or maxf > 6)) or (not is_mpe and obs_units > 60):
            res.count_class("adversary_skipped_large_objective")
            continue
        a["acccap"] = maxf + max(0, obs_units) + 1
        a["maxslack"] = 0
        a["prodcap"] = -1
        a["repcaps"] = []
        adv.append(a)
        res.count_class("adversary_optimality_runs")
    wit = P.adversary("Adv_Fit", adv, res)
    byid = {r["id"]: r for r in recs}
    # second pass for witnesses on cyclic inputs: does the witness survive the code's own product bound k * max f ?
    # (decided by TLC; the answer is recorded on the violation so that the known finding is matched narrowly)
    again = []
    for a in adv:
        if a["id"] in wit and a["cls"].endswith("Cycles"):
            b = dict(a)
            b["prodcap"] = a["k"] * code_maxf(a)
            again.append(b)
    wit2 = P.adversary("Adv_Fit", again, res) if again else {}
    for b in again:
        byid[b["id"]]["needs_product_above_k_maxf"] = b["id"] not in wit2
    # third pass: does the witness survive the repetition caps the model computed for itself?
    third = []
    for a in adv:
        if a["id"] in wit and a["cls"].endswith("Cycles") and a.get("repcaps_obs"):     # (caps are named over the graph the model works on: expanded names in node mode)
            c = dict(a)
            c["repcaps"] = a["repcaps_obs"]
            third.append(c)
    wit3 = P.adversary("Adv_Fit", third, res) if third else {}
    for c in third:
        byid[c["id"]]["needs_repetitions_above_cap"] = c["id"] not in wit3
    # fourth pass, for witnesses none of the model's own restrictions explains: the same model, same input, with the solver's
    # presolve switched off (see pipeline.presolve_off_probe)
    P.presolve_off_probe([byid[a["id"]] for a in adv if a["id"] in wit and not byid[a["id"]].get("needs_product_above_k_maxf")
                          and not byid[a["id"]].get("needs_repetitions_above_cap")])
    for a in adv:
        bad = a["id"] in wit
        res.clause(clause, 1, 1 if bad else 0)
        if bad:
            w = min(wit[a["id"]], key=lambda t: t[3])
            res.violation(clause, byid[a["id"]], {"witness": w, "meaning": f"TLC reached a solution with {w[2]} routes and "
                          f"objective {w[3]}/10000 < observed {a['obj']}/10000"})
    return wit
