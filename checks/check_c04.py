"""C04 - MinFlowDecompCycles finds a decomposition into the fewest walks; scaling-invariant."""
import random
import vlib
import compose as C
import pipeline as P

PROP = "C04"


def instances(tier, rng):
    quick = tier == "quick"
    cyc = vlib.universe("cyc", 3, maxe=9, k=2, w=2, l=1, cap=6)
    cyc4 = vlib.universe("cyc", 4, maxe=6, k=2, w=2, l=1, cap=4)
    us = C.spread(cyc, 36 if quick else 72) + C.spread(cyc4, 110 if quick else 1500)
    us = us + C.spread(C.motifs()[1], 10 if quick else 30)
    # re-planted flows: larger, coprime-ish walk weights and cycles traversed several times by a light walk
    base = [u for u in us if any(len(set(p)) < len(p) for p in u["proutes"])]
    us = us + [C.replant(u, rng) for u in C.spread(base, 24 if quick else 200)]
    # a light walk spinning on two self-loops a different number of times + a heavy plain walk (generating-set bounds)
    seen, ll = set(), []
    for u in cyc4:
        if str(u["edges"]) not in seen:
            seen.add(str(u["edges"]))
            ll += C.light_looping(u, rng, 1 if quick else 3)
    insts, scal = [], []
    for u in ll:
        for opt in ({"use_min_gen_set_lowerbound": True}, {"optimize_with_guessed_weights": True, "use_min_gen_set_lowerbound": True,
                                                          "add_min_gen_set_to_given_weights": True}, {}):
            r = C.base(u, "MinFlowDecompCycles")
            r["wt"] = "int"
            r["expect_solved"] = True
            r["opt"] = opt
            insts.append(r)
    g = 0
    for u in us:
        cfgs = [{}, {"mode": "node"}]
        extra = [{"opt": {"optimize_with_safe_sequences": False}},
                 {"opt": {"optimize_with_safe_sequences": True, "optimize_with_safe_sequences_fix_zero_edges": True,
                          "optimize_with_safe_sequences_allow_geq_constraints": True}},
                 {"opt": {"optimize_with_safety_as_subset_constraints": True, "optimize_with_safe_sequences": False}},
                 {"opt": {"optimize_with_max_safe_antichain_as_subset_constraints": True, "optimize_with_safe_sequences": False}},
                 {"opt": {"use_min_gen_set_lowerbound": True}},
                 {"opt": {"optimize_with_guessed_weights": True}},
                 {"opt": {"optimize_with_guessed_weights": True, "use_min_gen_set_lowerbound": True,
                          "add_min_gen_set_to_given_weights": True, "optimize_with_given_weights_num_free_walks": 1}}]
        es = C.route_edges(rng.choice(u["proutes"]))
        extra.append({"cons": [es[:2]]})
        extra.append({"cons": [[es[0], es[-1]]]})
        if len(u["edges"]) >= 2:
            extra.append({"ign": [list(rng.choice(u["edges"]))]})
        always = []
        if len(u["edges"]) >= 3:
            # larger ignore sets (any subset keeps the planted decomposition admissible), in particular everything off one
            # planted walk so that the ignored part carries flow values the rest does not have - with the lower-bound options
            E = [list(e) for e in u["edges"]]
            always.append({"ign": rng.sample(E, rng.randint(2, len(E) - 1))})
            keep = {tuple(e) for e in C.route_edges(rng.choice(u["proutes"]))}
            off = [e for e in E if tuple(e) not in keep]
            if off and keep:
                always.append({"ign": off})
                always.append({"ign": off, "opt": rng.choice([{"use_min_gen_set_lowerbound": True}, {"optimize_with_guessed_weights": True},
                                                              {"optimize_with_safe_sequences": False}])})
        # safe-sequence fixings through queued bounds, under a finite time limit with the wrapper's own timeout armed too
        always.append({"opt": {"optimize_with_safe_sequences": True, "optimize_with_safe_sequences_fix_via_bounds": True,
                               "optimize_with_safe_sequences_fix_zero_edges": True},
                       "sopt": {"time_limit": 300, "use_also_custom_timeout": True}})
        always.append({"mode": "node", "opt": rng.choice([{"use_min_gen_set_lowerbound": True},
                                                          {"optimize_with_guessed_weights": True, "use_min_gen_set_lowerbound": True,
                                                           "add_min_gen_set_to_given_weights": True}])})
        for cfg in cfgs + (rng.sample(extra, 2) + rng.sample(always, min(3, len(always))) if quick else extra + always):
            r = C.base(u, "MinFlowDecompCycles", cfg.get("mode", "edge"))
            r["wt"] = "int"
            r["expect_solved"] = True
            r.update({k: v for k, v in cfg.items() if k != "mode"})
            insts.append(r)
        # scaling family: the same flow times c, float weights
        if (not quick) or rng.random() < 0.5:
            g += 1
            for (n, d) in [(1, 1), (1, 10), (1, 2), (3, 1)]:
                r = C.base(u, "MinFlowDecompCycles")
                r["wt"] = "float"
                r["num"], r["den"] = n, d
                r["grp"] = g
                scal.append(r)
    C.with_ids(insts)
    C.with_ids(scal, start=len(insts) + 1)
    return insts, scal


def run(tier, seed):
    res = vlib.Result(PROP, tier, seed)
    rng = random.Random(seed)
    known = vlib.load_known()
    insts, scal = instances(tier, rng)
    recs = P.drive(insts + scal)
    main = [r for r in recs if "grp" not in r]
    srecs = [r for r in recs if "grp" in r]
    res.evaluations = len(recs)
    P.validate(main, PROP, res)
    P.min_count_adversary(main, res, "Adv_Peel", lambda r: r["wt"] == "int",
                          exists_bound=lambda r: max(1, len(r["proutes"])))
    vlib.validate_groups(srecs, PROP, res)
    for r in main:
        if r["solved"]:
            res.count_class("solved")
        if r["mode"] == "node":
            res.count_class("node_mode")
        if r["cons"]:
            res.count_class("with_constraints")
        if any(a == b for a, b in r["edges"]):
            res.count_class("with_self_loop")
    res.count_class("scaling_groups", len({r["grp"] for r in srecs}))
    res.samples = [P.brief(r) for r in main[:2] + srecs[:1]]
    res.rule = ("TLC-enumerated cyclic digraphs (<=4 nodes, <=6 edges, every edge on an s-t walk) with planted integer walk "
                "superpositions x MinFlowDecompCycles configurations; Peel adversary (walks) bounded by the observed count; "
                "scaling families x{1, 0.1, 0.5, 3} validated by Trace_Groups")
    P.attribute_presolve(res, known)
    return res.finish(known, require_classes=["solved", "node_mode", "with_constraints", "with_self_loop",
                                              "scaling_groups", "adversary_minimality_runs"])


def replay(path, seed):
    import json
    d = json.load(open(path))
    rec = d["record"]
    recs = P.drive([rec])
    res = vlib.Result(PROP, "quick", seed)
    if "grp" not in rec:
        P.validate(recs, PROP, res)
        P.min_count_adversary(recs, res, "Adv_Peel", lambda r: r["wt"] == "int",
                              exists_bound=lambda r: max(1, len(r["proutes"])))
    print(json.dumps(P.brief(recs[0])))
    return 1 if res.violations else 0
