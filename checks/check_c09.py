"""C09 - minimum path/walk covers cover everything with fewest routes; width equals it."""
import random
import vlib
import compose as C
import pipeline as P

PROP = "C09"


def cover_rec(u, cls, **kw):
    r = C.base(u, cls, kw.pop("mode", "edge"))
    r.pop("ew", None)
    r.pop("nw", None)
    r.update(kw)
    return r


def instances(tier, rng):
    quick = tier == "quick"
    dag = vlib.universe("dag", 4, k=3, w=3, cap=12)
    cyc = vlib.universe("cyc", 3, maxe=9, k=2, w=2, l=1, cap=6)
    cyc4 = vlib.universe("cyc", 4, maxe=6, k=2, w=2, l=1, cap=4)
    # one entry per shape is enough (covers ignore the weights)
    def shapes(us):
        seen, out = set(), []
        for u in us:
            key = str(u["edges"])
            if key not in seen:
                seen.add(key)
                out.append(u)
        return out
    dags = shapes(dag)
    cycs = shapes(cyc) + C.spread(shapes(cyc4), 150 if quick else 1236)
    if not quick:
        dags = dags + C.spread(shapes(vlib.universe("dag", 5, k=3, w=2, cap=6)), 400)
    mdag, mcyc = C.motifs()
    dags = dags + shapes(mdag)
    cycs = cycs + shapes(mcyc)
    insts, kcov, subs = [], [], []
    for kind, us in (("dag", dags), ("cyc", cycs)):
        mincls = "MinPathCover" if kind == "dag" else "MinPathCoverCycles"
        kcls = "kPathCover" if kind == "dag" else "kPathCoverCycles"
        for j, u in enumerate(us):
            if j % 6 == 5 and len(u["nodes"]) <= len(C.UNDERSCORED):
                u = C.rename_scheme(u, C.UNDERSCORED[:len(u["nodes"])])
            feats = [{}, {"mode": "node"}]
            extra = []
            if len(u["edges"]) >= 2:
                extra.append({"ign": [list(rng.choice(u["edges"]))]})
            if len(u["edges"]) >= 3:
                extra.append({"ign": [list(e) for e in rng.sample(u["edges"], 2)]})
            if len(u["nodes"]) >= 2:
                extra.append({"mode": "node", "ign": [rng.choice(u["nodes"])]})
            v = rng.choice(u["nodes"])
            extra.append({"starts": [v]})
            extra.append({"ends": [rng.choice(u["nodes"])]})
            extra.append({"starts": [v], "ends": [rng.choice(u["nodes"])], "mode": "node"})
            es = C.route_edges(rng.choice(u["proutes"]))
            extra.append({"cons": [es[:2]]})
            if len(es) >= 2:
                extra.append({"cons": [[es[0], es[-1]]], "cov": [1, 2]})
            if kind == "cyc":
                # a subset constraint mixing an edge INSIDE a cycle with edges elsewhere: going round the cycle twice is not the
                # same as using two of the listed edges
                inside = C.scc_edges(u)
                others = [list(e) for e in u["edges"] if list(e) not in inside]
                if inside and others:
                    e_in = rng.choice(inside)
                    if len(others) >= 2:
                        f, g = rng.sample(others, 2)
                        extra.append({"cons": [[f, e_in, g]], "cov": [2, 3], "maybe_infeasible": True})
                        feats.append({"cons": [[f, e_in, g]], "cov": [2, 3], "maybe_infeasible": True})
                    extra.append({"cons": [[e_in, rng.choice(others)]], "maybe_infeasible": True})
            if kind == "dag" and len(es) >= 2:
                # length coverage: several constraints over short / long edges, fraction of the listed LENGTH
                ps = [C.route_edges(p) for p in u["proutes"]]
                lc = {"cons": [q[:2] for q in ps if len(q) >= 2][:3] or [es[:2]],
                      "covlen": rng.choice([[1, 2], [7, 10], [3, 4]]),
                      "elen": [rng.choice([vlib.NONE, 1, 3, 3, 5]) for _ in u["edges"]]}
                extra.append(lc)
                if quick and rng.random() < 0.5:
                    feats.append(lc)
            for cfg in feats + (rng.sample(extra, 3) if quick else extra):
                cfg = dict(cfg)
                free = cfg.pop("maybe_infeasible", False)      # (no walk need contain the listed edges: TLC decides whether one does)
                r = cover_rec(u, mincls, **dict(cfg))
                r["expect_solved"] = not free
                insts.append(r)
                if rng.random() < (0.5 if quick else 1.0):
                    for k in (1, 2, 3):
                        kr = cover_rec(u, kcls, **dict(cfg))
                        kr["k"] = k
                        kcov.append(kr)
            # width queries on the s-t graph classes
            ops = [["width", []]]
            if len(u["edges"]) >= 2:
                ops.append(["width", [list(rng.choice(u["edges"]))]])
            if len(u["edges"]) >= 3:
                ops.append(["width", [list(e) for e in rng.sample(u["edges"], 2)]])
            for st, en in (([], []), ([rng.choice(u["nodes"])], []), ([], [rng.choice(u["nodes"])])):
                # interleaved with queries that do NOT pass the synthetic edges (unjudged; they only warm the object's caches)
                mixed = []
                for o in ops:
                    if rng.random() < 0.5:
                        mixed.append(["width_raw", o[1]])
                    mixed.append(o)
                # ... and, after the queries with ignored edges, the plain question again (answered from the object's cache): without
                # extra starts / ends the synthetic edges lie on every covering walk anyway, so its answer is the plain optimum
                mixed.append(["width_raw", []])
                subs.append({"kind": "dag" if kind == "dag" else "digraph", "nodes": u["nodes"], "edges": u["edges"],
                             "starts": st, "ends": en, "ops": mixed})
    # larger seeded random cyclic digraphs (5-6 nodes): parallel exits / entries of an SCC next to competing branches;
    # every pair of ignored edges is queried
    import itertools
    for _ in range(25 if quick else 150):
        u = C.random_cyclic(rng, rng.choice([5, 5, 6]), rng.choice([6, 7, 8]))
        if u is None:
            continue
        E = [list(e) for e in u["edges"]]
        pairs = list(itertools.combinations(E, 2))
        ops = [["width", []]] + [["width", [e]] for e in E] + [["width", list(p)] for p in (pairs if len(pairs) <= 28 else rng.sample(pairs, 28))]
        subs.append({"kind": "digraph", "nodes": u["nodes"], "edges": u["edges"], "starts": [], "ends": [], "ops": ops})
        for p in rng.sample(pairs, min(4, len(pairs))):
            r = cover_rec(u, "MinPathCoverCycles", ign=[list(x) for x in p])
            r["expect_solved"] = True
            insts.append(r)
    C.with_ids(insts)
    C.with_ids(kcov, start=len(insts) + 1)
    C.with_ids(subs, start=len(insts) + len(kcov) + 1)
    return insts, kcov, subs


def run(tier, seed):
    res = vlib.Result(PROP, tier, seed)
    rng = random.Random(seed)
    known = vlib.load_known()
    insts, kcov, subs = instances(tier, rng)
    import os
    P.design_mc(res, "Adv_Cover", "MC_Cover.cfg", os.path.join(vlib.SPEC, "mc", "peel_cover.ndjson"),
                what="Cover machine: only required edges are marked, covered / honoured sets grow monotonically")
    # the construction get_width implements (condense, split non-trivial components, multiplicity weights, max-weight
    # antichain) equals the plain definition of the width, on every shape of the universe x ignore sets of <= 2 edges
    shapes, seen = [], set()
    srcs = [vlib.universe("motif", 6, k=2, w=2, l=1, cap=6), vlib.universe("cyc", 3, maxe=9, k=2, w=2, l=1, cap=6),
            vlib.universe("cyc", 4, maxe=6, k=2, w=2, l=1, cap=4)]
    for u in [x for s_ in srcs for x in s_]:
        key = (tuple(u["nodes"]), tuple(map(tuple, u["edges"])))
        if key not in seen:
            seen.add(key)
            shapes.append({"nodes": u["nodes"], "edges": u["edges"]})
    if tier == "quick":
        shapes = [s_ for s_ in shapes if len(s_["nodes"]) > 4] + C.spread([s_ for s_ in shapes if len(s_["nodes"]) <= 4], 60)
    sc = vlib.scratch_dir()
    wf = os.path.join(sc, "width_shapes.ndjson")
    vlib.write_ndjson(wf, shapes)
    P.design_mc(res, "Width", "MC_Width.cfg", wf, workers=16, timeout=2400,
                what=f"get_width's construction = largest set of pairwise walk-incomparable non-ignored edges, {len(shapes)} shapes")
    import shutil
    shutil.rmtree(sc, ignore_errors=True)
    # graphs too large for the Cover adversary (12-15 nodes, one big SCC entered by a single edge that a covering walk
    # crosses p*q times): decided by Width!ConstructedWidth (Trace_Width.tla)
    big = []
    for p_, q_, x_ in ((3, 3, False), (4, 4, False), (3, 5, False), (4, 4, True)) if tier == "quick" else \
            ((3, 3, False), (4, 4, False), (3, 5, False), (4, 4, True), (5, 4, False), (3, 4, True), (5, 5, False)):
        u = C.bipartite_scc(p_, q_, x_)
        igns = [[], [list(rng.choice(u["edges"]))]]
        for ign in igns:
            r = cover_rec(u, "MinPathCoverCycles", ign=ign)
            r["opt"] = {"optimize_with_safe_sequences": False} if rng.random() < 0.5 else {}
            big.append(r)
            for k in (1, 2):
                kr = cover_rec(u, "kPathCoverCycles", ign=ign)
                kr["k"] = k
                big.append(kr)
    C.with_ids(big, start=900000)
    recs = P.drive(insts + kcov + big, limit=240)
    brecs = recs[len(insts) + len(kcov):]
    recs = recs[:len(insts) + len(kcov)]
    slim = [{"id": r["id"], "cls": r["cls"], "nodes": r["nodes"], "edges": r["edges"], "ign": r["ign"], "k": r["k"],
             "solved": r["solved"], "count": len(r["routes"])} for r in brecs if r["ctor_exc"] == "none" and not r.get("timeout")]
    if slim:
        verd = vlib.validate_records("Trace_Width", "Trace_Width.cfg", slim, PROP, res, nshards=min(16, len(slim)))
        byb = {r["id"]: r for r in brecs}
        for rid, (app, fails) in verd.items():
            res.traces += 1
            res.nontrivial.add(rid)
            c = "kCoverSolvedIffKAtLeastWidth" if byb[rid]["cls"] == "kPathCoverCycles" else "MinCoverUsesWidthManyWalks"
            res.clause("Big." + c, 1, 1 if fails else 0)
            res.count_class("large_scc_instances")
            for f in fails:
                res.violation("Big." + f, {k: byb[rid].get(k) for k in ("id", "cls", "nodes", "edges", "ign", "k", "solved", "routes", "opt")})
    main = recs[:len(insts)]
    krecs = recs[len(insts):]
    res.evaluations = len(recs) + len(subs)
    P.validate(main, PROP, res)
    P.min_count_adversary(main, res, "Adv_Cover", lambda r: True,
                          exists_bound=lambda r: len(r["edges"]) + len(r["nodes"]))
    # k-cover models: solved exactly for k at or above the optimum
    adv = []
    for r in krecs:
        if r.get("timeout") or r["ctor_exc"] != "none":
            if r["ctor_exc"] not in ("none",):
                res.clause("kCoverConstructs", 1, 1)
                res.violation("kCoverConstructs", r)
            continue
        res.clause("kCoverConstructs", 1, 0)
        a = dict(r)
        a["bound"] = r["k"]
        a["expect"] = "reach" if r["solved"] else "unreach"
        adv.append(a)
    P.reach_adversary("Adv_Cover", adv, res, "kCoverSolvedIffKAtLeastOptimum")
    validk = [r for r in krecs if r["solved"]]
    P.validate(validk, PROP, res)
    # width
    srecs = P.drive_substrate(subs)
    wadv = []
    nid = 10 ** 6
    for s in srecs:
        for ev in s.get("events", []):
            if ev["op"] == "width_raw" and (ev["arg"][0] or s["starts"] or s["ends"]):
                res.count_class("unjudged_raw_width_queries")
                continue
            if ev["op"] == "width_raw":
                res.count_class("plain_width_queries_after_ignoring_ones")
            base = {"cls": "kPathCover" if s["kind"] == "dag" else "kPathCoverCycles", "nodes": s["nodes"],
                    "edges": s["edges"], "mode": "edge", "ign": ev["arg"][0] if ev["op"] == "width" else [],
                    "cons": [], "cons_kind": "edge", "cov": [1, 1], "starts": s["starts"], "ends": s["ends"],
                    "escale": [], "ew": [], "nw": [], "op": ev["op"], "width": ev["ret"], "exc": ev["exc"], "sub_id": s["id"]}
            if len(base["ign"]) >= len(s["edges"]):
                continue      # "at least one edge remaining"
            if ev["exc"] != "none" or ev["ret"] == vlib.NONE:
                res.clause("WidthReturns", 1, 1)
                res.violation("WidthReturns", dict(base, id=nid))
                nid += 1
                continue
            res.clause("WidthReturns", 1, 0)
            w = ev["ret"]
            if w >= 1:
                wadv.append(dict(base, id=nid, bound=w - 1, expect="unreach")); nid += 1
            wadv.append(dict(base, id=nid, bound=w, expect="reach")); nid += 1
            res.count_class("width_queries")
    P.reach_adversary("Adv_Cover", wadv, res, "WidthEqualsMinCover")
    for r in main:
        if r["solved"]:
            res.count_class("solved")
        if r["mode"] == "node":
            res.count_class("node_cover")
        if r["cls"].endswith("Cycles"):
            res.count_class("cyclic")
        if r["ign"]:
            res.count_class("with_ignored")
        if r["starts"] or r["ends"]:
            res.count_class("with_starts_ends")
    res.samples = [P.brief(r) for r in main[:2]] + [{k: wadv[0][k] for k in ("nodes", "edges", "ign", "starts", "ends", "width", "bound", "expect")}]
    res.rule = ("every TLC-enumerated DAG shape (<=4 nodes; thorough <=5) and cyclic shape (<=4 nodes, <=6 edges) x edge/node "
                "cover, ignore sets, starts/ends, constraints; the Cover adversary decides minimality, 'kPathCover(k) solved "
                "iff k >= optimum' and 'get_width = optimum' (two reachability questions per width value)")
    P.attribute_presolve(res, known)
    return res.finish(known, require_classes=["solved", "node_cover", "cyclic", "with_ignored", "with_starts_ends", "width_queries"])


def replay(path, seed):
    import json
    d = json.load(open(path))
    rec = d["record"]
    res = vlib.Result(PROP, "quick", seed)
    if "width" in rec:
        a = dict(rec)
        P.reach_adversary("Adv_Cover", [a], res, "WidthEqualsMinCover")
    else:
        recs = P.drive([rec])
        P.validate(recs, PROP, res)
        P.min_count_adversary(recs, res, "Adv_Cover", lambda r: True)
        print(json.dumps(P.brief(recs[0])))
    return 1 if res.violations else 0
