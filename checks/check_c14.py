"""C14 - walk reconstruction uses every edge exactly as often as the solver decided."""
import os
import random
import shutil
import vlib
import compose as C
import pipeline as P

PROP = "C14"


def run(tier, seed):
    res = vlib.Result(PROP, tier, seed)
    rng = random.Random(seed)
    known = vlib.load_known()
    quick = tier == "quick"
    uni = vlib.euler_universe(3, 9, 3, 400) + (vlib.euler_universe(4, 6, 2, 24) if quick else vlib.euler_universe(4, 7, 4, 120))
    # (1) design level: the algorithm as a state machine, every pop order, every assignment of a sample
    flat = []
    i = 0
    for r in uni:
        for m in r["mults"]:
            i += 1
            flat.append({"id": i, "edges": r["edges"], "mult": m})
    mc = C.spread(flat, 2500 if quick else 20000)
    sc = vlib.scratch_dir()
    f = os.path.join(sc, "mc.ndjson")
    vlib.write_ndjson(f, mc)
    r = vlib.run_tlc("Euler", "MC_Euler.cfg", env={"TRACE_FILE": f}, workers=16, timeout=3000, heap="6g")
    if "Error:" in r["stdout"] or not vlib.tlc_ok(r):
        if "is violated" in r["stdout"] or "Temporal properties were violated" in r["stdout"]:
            res.violation("DesignLevelEuler", {"id": "MC_Euler", "tlc": r["stdout"][-3000:]})
        else:
            raise vlib.Machinery("MC_Euler failed: " + r["stdout"][-2000:])
    res.add_tlc(r)
    res.mc.append({"config": "MC_Euler.cfg", "instances": len(mc), "distinct_states": r["distinct"], "states": r["states"],
                   "invariants": ["DoneOK", "NeverOveruse"], "liveness": ["Terminates"], "ok": vlib.tlc_ok(r)})
    # (2) conformance: the same assignments preset into the real class, layers = batches of assignments
    insts = []
    iid = 0
    for rec in uni:
        ms = rec["mults"]
        zero = [0] * len(rec["edges"])
        batches = [ms[j:j + 6] for j in range(0, len(ms), 6)]
        for b in batches:
            iid += 1
            layers = list(b)
            if iid % 5 == 0:
                layers.insert(rng.randrange(len(layers) + 1), zero)     # an all-zero layer must give an empty walk
            insts.append({"id": iid, "unodes": rec["unodes"], "uedges": rec["uedges"], "edges": rec["edges"], "layers": layers,
                          "eps": 1 if iid % 3 == 0 else 0, "twice": iid % 4 == 1})
    src, dst = os.path.join(sc, "i.ndjson"), os.path.join(sc, "o.ndjson")
    vlib.write_ndjson(src, insts)
    vlib.run_harness("drive_euler.py", [src, dst])
    recs = vlib.read_ndjson(dst)
    shutil.rmtree(sc, ignore_errors=True)
    verd = vlib.validate_records("Trace_Euler", "Trace.cfg", recs, PROP, res)
    byid = {x["id"]: x for x in recs}
    nlay = 0
    for rid, (app, fails) in verd.items():
        res.traces += 1
        rec = byid[rid]
        nlay += len(rec["layers"])
        for c in app:
            res.clause(c, 1, 1 if c in fails else 0)
        res.nontrivial.add(rid)
        for c in fails:
            res.violation(c, rec)
        if any(max(v) >= 2 for v in rec["layers"] if v):
            res.count_class("records_with_multiplicity>1")
        if any(all(x == 0 for x in v) for v in rec["layers"]):
            res.count_class("records_with_all_zero_layer")
        if rec["eps"]:
            res.count_class("records_with_float_noise")
    res.count_class("assignments_replayed", nlay)
    res.evaluations = nlay
    res.samples = [{k: recs[0][k] for k in ("unodes", "uedges", "edges", "layers", "walks")}]
    res.exhaustive = True
    res.rule = ("every cyclic shape on <=3 nodes and <=4 nodes/<=6 edges (thorough: <=7 edges) x traversal-count vectors of all "
                "SRC-SNK walks with <= |E|+L edges (TLC, Gen_Euler.tla; capped per shape by even spreading); each vector is a "
                "distinct balanced connected assignment; MC_Euler checks the algorithm for every pop order, the real "
                "get_solution_walks() is replayed on the same vectors (+ float noise 1e-7, + all-zero layers)")
    return res.finish(known, require_classes=["assignments_replayed", "records_with_multiplicity>1", "records_with_all_zero_layer"])


def replay(path, seed):
    import json
    d = json.load(open(path))
    print(json.dumps(d["record"])[:3000])
    return 1
