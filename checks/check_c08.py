"""C08 - k-Minimum-Path-Error is feasible for k >= width and minimises total slack."""
import random
import vlib
import compose as C
import pipeline as P
import fitcommon as F

PROP = "C08"


def instances(tier, rng):
    quick = tier == "quick"
    dag = vlib.universe("dag", 4, k=3, w=3, cap=12)
    cyc = vlib.universe("cyc", 3, maxe=9, k=2, w=2, l=1, cap=6)
    cyc4 = vlib.universe("cyc", 4, maxe=6, k=2, w=2, l=1, cap=4)
    items = [("kMinPathError", u) for u in C.spread(dag, 60 if quick else 150)] + \
            [("kMinPathErrorCycles", u) for u in C.spread(cyc, 12 if quick else 72) + C.spread(cyc4, 40 if quick else 150)]
    insts = []
    g = 0
    for cls, u0 in items:
        for u in (u0, F.perturb(u0, rng, nmax=1)):
            feats = [{}]
            extra = [{"mode": "node"}]
            if len(u["edges"]) >= 2:
                extra.append({"ign": [list(rng.choice(u["edges"]))]})
            e = list(rng.choice(u["edges"]))
            extra.append({"escale": [[e, 1, 2]]})
            extra.append({"escale": [[e, 0, 1]]})
            v = rng.choice(u["nodes"])
            extra.append({"mode": "node", "escale": [[v, 0, 1]]})       # node keys: scale 0 on a node == node ignored
            extra.append({"mode": "node", "escale": [[v, 1, 2]]})
            if len(u["nodes"]) >= 3:
                extra.append({"mode": "node", "ign": [v]})
            extra.append({"starts": [rng.choice(u["nodes"])]})
            extra.append({"ends": [rng.choice(u["nodes"])]})
            if cls == "kMinPathErrorCycles":
                # elements ignored by a percentile of their values (Problems!PctIgnored): which elements count is derived from the data
                extra.append({"ignpct": rng.choice([25, 50, 75, 100])})
                extra.append({"ignpct": rng.choice([0, 50, 75])})
                extra.append({"mode": "node", "ignpct": rng.choice([25, 50, 75, 100])})
            if cls == "kMinPathError":
                extra.append({"sws": sorted(set(u["pweights"])) + [1]})
                extra.append({"plr": [[0, 2], [3, 20]], "plf": [[1, 1], [2, 1]]})
                extra.append({"plr": [[0, 1], [2, 20]], "plf": [[2, 1], [1, 1]], "sws": sorted(set(u["pweights"])) + [1]})   # both
                # path lengths measured by a length attribute: zero lengths, missing lengths; node mode (links count 0)
                extra.append({"plr": [[0, 4], [5, 60]], "plf": [[2, 1], [1, 1]], "lenattr": True,
                              "elen": [rng.choice([0, 0, 1, 2, 5, vlib.NONE]) for _ in u["edges"]]})
                extra.append({"mode": "node", "plr": [[0, 5], [6, 60]], "plf": [[1, 1], [3, 1]], "lenattr": True,
                              "nlen": [rng.choice([0, 1, 2, 4, vlib.NONE]) for _ in u["nodes"]]})
                extra.append({"mode": "node", "plr": [[0, 6], [7, 60]], "plf": [[2, 1], [1, 1]]})
            es = C.route_edges(rng.choice(u["proutes"]))
            extra.append({"cons": [es[:2]]})
            for cfg in feats + rng.sample(extra, 2 if quick else 5):
                for kk in ("none", "w", "w+1"):
                    g += 1
                    for wt, num, den in (("int", 1, 1), ("float", 1, 1), ("float", 1, 2)) if (not quick or rng.random() < 0.3) else (("int", 1, 1),):
                        if "plr" in cfg and wt == "float":
                            continue
                        r = C.base(u, cls, cfg.get("mode", "edge"))
                        r.update({k2: v for k2, v in cfg.items() if k2 != "mode"})
                        r["kk"] = kk          # k is filled in after the width is known (second pass)
                        if kk == "none":
                            r["k_none"] = True
                        r["wt"] = wt
                        r["num"], r["den"] = num, den
                        r["grp"] = g
                        r["cmp"] = [num, den]
                        insts.append(r)
    # the walk model on ACYCLIC inputs with small fractional weights (x 1/10: k * max weight < 1, as with normalised abundances):
    # nothing about cycles is involved, the scaled model must do what the integer model does
    for u0 in C.spread(dag, 10 if quick else 60):
        for u in (u0, F.perturb(u0, rng, nmax=1)):
            for kk in ("none", "w", "w+1"):          # (this order: the second pass finds the k=None sibling by position)
                g += 1
                for wt, num, den in (("int", 1, 1), ("float", 1, 1), ("float", 1, 10)):
                    r = C.base(u, "kMinPathErrorCycles")
                    r["kk"] = kk
                    if kk == "none":
                        r["k_none"] = True
                    r["wt"], r["num"], r["den"] = wt, num, den
                    r["grp"] = g
                    r["cmp"] = [num, den]
                    insts.append(r)
    return C.with_ids(insts)


def exact(r):
    if r["sws"] or r["plr"]:
        return False
    return r["wt"] == "int"


def run(tier, seed):
    res = vlib.Result(PROP, tier, seed)
    rng = random.Random(seed)
    known = vlib.load_known()
    insts = instances(tier, rng)
    # pass 1: k=None runs tell which k the model picks; TLC then decides whether that is the covering number
    first = [dict(r) for r in insts if r["kk"] == "none"]
    recs1 = P.drive(first)
    kpicked = {}
    for r in recs1:
        kpicked[(r["grp"])] = r["k_model"]
    # the runs with explicit k use the covering number computed by the Cover adversary (below) - to stay independent of
    # the library we take k from TLC: ask for the optimum with a generous bound and use the least witness
    cov = []
    for r in recs1:
        a = dict(r)
        a["cls"] = "kPathCoverCycles" if r["cls"].endswith("Cycles") else "kPathCover"
        a["bound"] = len(r["edges"]) + len(r["nodes"])
        cov.append(a)
    wit = P.adversary("Adv_Cover", cov, res)
    width = {r["grp"]: min(t[2] for t in wit[r["id"]]) if r["id"] in wit else None for r in recs1}
    grp_of = {}
    second = []
    for r in insts:
        if r["kk"] == "none":
            continue
        # find the k=None sibling: same u/cfg => grp differs by position; siblings were generated consecutively
        sib = r["grp"] - (1 if r["kk"] == "w" else 2)
        w = None
        for g2 in (sib,):
            w = width.get(g2)
        if w is None or w < 1:
            continue
        rr = dict(r)
        rr["k"] = w if r["kk"] == "w" else w + 1
        rr["expect_solved"] = not rr.get("sws")     # a restricted weight list may legitimately be infeasible
        second.append(rr)
    recs2 = P.drive(second)
    for r in recs1:
        r["expect_solved"] = width.get(r["grp"]) is not None and width[r["grp"]] >= 1 and not r.get("sws")
    recs = recs1 + recs2
    res.evaluations = len(recs)
    P.validate(recs, PROP, res)
    # k=None picks exactly the covering number
    for r in recs1:
        w = width.get(r["grp"])
        if w is None or w < 1 or r["ctor_exc"] != "none" or r["sws"]:
            continue     # with a given weight list the model's k is the length of that list
        ok = r["k_model"] == w
        res.clause("KNonePicksCoveringNumber", 1, 0 if ok else 1)
        if not ok:
            res.violation("KNonePicksCoveringNumber", r, {"tlc_min_cover": w, "k_model": r["k_model"]})
    F.fit_adversary(recs, res, exact, clause="MinimalTotalSlack")
    # unsolved although k >= covering number (integer weights, cyclic model): ask TLC whether a feasible solution exists at
    # all and whether one exists under the code's own product bound k*max f (narrow matching of KF-C08-product-bound)
    probe = []
    for r in recs:
        if r.get("expect_solved") and not r["solved"] and r["cls"].endswith("Cycles") \
                and (r["wt"] == "int" or (r["num"], r["den"]) == (1, 1)) \
                and r["ctor_exc"] == "none" and not r.get("timeout") and not r["sws"]:
            vals = [x for x in (r["nw"] if r["mode"] == "node" else r["ew"]) if x != vlib.NONE]
            maxf = max(vals) if vals else 0
            k = r["k"] if r["k"] != vlib.NONE else r["k_model"]
            for j, (cap, caps) in enumerate(((-1, []), (k * F.code_maxf(r), []), (-1, r.get("repcaps_obs") or []))):
                if j == 2 and not caps:
                    continue
                a = dict(r)
                a["wt"] = "int"      # whether ANY solution exists is a question about covering walks (weight 0 + slack is always
                                     # admissible), so the integer adversary answers it for float weights on unscaled data too
                a.update({"id": r["id"] * 10 + j, "want": "any", "k": k, "tol": 0, "obj": 0, "_variant": j,
                          "acccap": 2 * k * maxf + 2, "maxslack": k * maxf, "prodcap": cap, "repcaps": caps, "_src": r["id"]})
                probe.append(a)
    if probe:
        wit = P.adversary("Adv_Fit", probe, res)
        byid = {r["id"]: r for r in recs}
        for a in probe:
            key = ("feasible_solution_exists", "feasible_under_product_bound", "feasible_under_repetition_caps")[a["_variant"]]
            byid[a["_src"]][key] = a["id"] in wit
        for r in recs:
            if "feasible_solution_exists" in r:
                r["needs_product_above_k_maxf"] = bool(r["feasible_solution_exists"] and not r.get("feasible_under_product_bound"))
                if "feasible_under_repetition_caps" in r:
                    r["needs_repetitions_above_cap"] = bool(r["feasible_solution_exists"] and not r["feasible_under_repetition_caps"])
    vlib.validate_groups([dict(r) for r in recs], PROP, res)
    for r in recs:
        if r["solved"]:
            res.count_class("solved")
            if r["escale"]:
                res.count_class("solved_with_error_scaling")
            if r["mode"] == "node":
                res.count_class("solved_node_mode")
            if r["cls"].endswith("Cycles"):
                res.count_class("solved_cyclic")
            if r["plr"]:
                res.count_class("solved_with_length_factors")
            if r.get("ignpct", -1) >= 0:
                res.count_class("solved_with_percentile_ignore")
    res.samples = [P.brief(r) for r in recs[:2] + recs[-1:]]
    res.rule = ("planted / perturbed integer weights on TLC-enumerated DAGs / cyclic digraphs; k in {None, c, c+1} where c is the "
                "covering number computed by TLC's Cover adversary; features ignore / error_scaling / starts / ends / given weights / "
                "length factors / constraint; Fit adversary with slacks searches for a strictly smaller total slack")
    P.attribute_presolve(res, known)
    return res.finish(known, require_classes=["solved", "solved_with_error_scaling", "solved_node_mode", "solved_cyclic",
                                              "adversary_optimality_runs", "solved_with_percentile_ignore"])


def replay(path, seed):
    import json
    d = json.load(open(path))
    rec = d["record"]
    recs = P.drive([rec])
    res = vlib.Result(PROP, "quick", seed)
    P.validate(recs, PROP, res)
    F.fit_adversary(recs, res, exact, clause="MinimalTotalSlack")
    # unsolved although k >= covering number (integer weights, cyclic model): ask TLC whether a feasible solution exists at
    # all and whether one exists under the code's own product bound k*max f (narrow matching of KF-C08-product-bound)
    probe = []
    for r in recs:
        if r.get("expect_solved") and not r["solved"] and r["cls"].endswith("Cycles") \
                and (r["wt"] == "int" or (r["num"], r["den"]) == (1, 1)) \
                and r["ctor_exc"] == "none" and not r.get("timeout") and not r["sws"]:
            vals = [x for x in (r["nw"] if r["mode"] == "node" else r["ew"]) if x != vlib.NONE]
            maxf = max(vals) if vals else 0
            k = r["k"] if r["k"] != vlib.NONE else r["k_model"]
            for j, (cap, caps) in enumerate(((-1, []), (k * F.code_maxf(r), []), (-1, r.get("repcaps_obs") or []))):
                if j == 2 and not caps:
                    continue
                a = dict(r)
                a["wt"] = "int"      # whether ANY solution exists is a question about covering walks (weight 0 + slack is always
                                     # admissible), so the integer adversary answers it for float weights on unscaled data too
                a.update({"id": r["id"] * 10 + j, "want": "any", "k": k, "tol": 0, "obj": 0, "_variant": j,
                          "acccap": 2 * k * maxf + 2, "maxslack": k * maxf, "prodcap": cap, "repcaps": caps, "_src": r["id"]})
                probe.append(a)
    if probe:
        wit = P.adversary("Adv_Fit", probe, res)
        byid = {r["id"]: r for r in recs}
        for a in probe:
            key = ("feasible_solution_exists", "feasible_under_product_bound", "feasible_under_repetition_caps")[a["_variant"]]
            byid[a["_src"]][key] = a["id"] in wit
        for r in recs:
            if "feasible_solution_exists" in r:
                r["needs_product_above_k_maxf"] = bool(r["feasible_solution_exists"] and not r.get("feasible_under_product_bound"))
                if "feasible_under_repetition_caps" in r:
                    r["needs_repetitions_above_cap"] = bool(r["feasible_solution_exists"] and not r["feasible_under_repetition_caps"])
    print(json.dumps(P.brief(recs[0])))
    return 1 if res.violations else 0
