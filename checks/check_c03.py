"""C03 - MinFlowDecomp (DAG) always finds a decomposition and it has the fewest paths."""
import os
import random
import vlib
import compose as C
import pipeline as P

PROP = "C03"


def instances(tier, rng):
    quick = tier == "quick"
    dag = vlib.universe("dag", 4, k=3, w=3, cap=12)
    us = C.spread(dag, 200 if quick else 495)
    if not quick:
        us = us + C.spread(vlib.universe("dag", 5, k=3, w=2, cap=6), 1500)
    us = us + C.motifs()[0]
    insts = []
    for u in us:
        cfgs = [{}, {"mode": "node"}, {"wt": "float", "num": 1, "den": 2},
                {"opt": {"optimize_with_greedy": False}},
                # fractional data answered by the model itself (no greedy shortcut): path weights are real numbers
                {"wt": "float", "num": 1, "den": 2, "opt": {"optimize_with_greedy": False}}]
        extra = [{"opt": {"use_min_gen_set_lowerbound": True}},
                 {"opt": {"use_min_gen_set_lowerbound": True, "use_min_gen_set_lowerbound_partition_constraints": True}},
                 {"opt": {"optimize_with_guessed_weights": True}},
                 {"opt": {"lowerbound_k": 1, "optimize_with_greedy": False, "optimize_with_flow_safe_paths": False}},
                 {"opt": {"use_subgraph_scanning_lowerbound": True}},
                 {"opt": {"use_subgraph_scanning_lowerbound": True}, "scan_size": 2},      # a window small enough to scan
                 {"opt": {"use_subgraph_scanning_lowerbound": True, "optimize_with_greedy": False}, "scan_size": rng.choice([1, 2, 3])},
                 {"mode": "node", "opt": {"optimize_with_greedy": False}}]
        es = C.route_edges(rng.choice(u["proutes"]))
        extra.append({"cons": [es[:2]]})
        extra.append({"cons": [es[:1], es[-1:]], "opt": {"optimize_with_greedy": False}})
        if len(u["proutes"]) >= 2:
            # a constraint taken from another planted route: still admits the planted decomposition
            es2 = C.route_edges(u["proutes"][-1])
            extra.append({"cons": [es[:2], es2[-2:]]})
        if len(u["edges"]) >= 2:     # keep at least one non-ignored weighted element (the domain of C03/C19)
            extra.append({"ign": [list(rng.choice(u["edges"]))]})
        extra.append({"mode": "node", "ign": [rng.choice(u["nodes"])]})
        always = []
        if len(u["nodes"]) >= 4:
            # scanning windows and constraints that straddle a window boundary, covered to a fraction
            pe = C.route_edges(max(u["proutes"], key=len))
            if len(pe) >= 2:
                always.append({"opt": {"use_subgraph_scanning_lowerbound": True}, "scan_size": rng.choice([2, 3]),
                               "cons": [pe], "cov": rng.choice([[1, 2], [3, 5], [2, 3]])})
        if len(u["edges"]) >= 3:
            # larger ignore sets (any subset keeps the planted decomposition admissible); in particular everything off one
            # planted route, so that the ignored part carries flow values the non-ignored part does not have
            E = [list(e) for e in u["edges"]]
            always.append({"ign": rng.sample(E, rng.randint(2, len(E) - 1))})
            keep = {tuple(e) for e in C.route_edges(rng.choice(u["proutes"]))}
            off = [e for e in E if tuple(e) not in keep]
            if off and keep:
                always.append({"ign": off})
                always.append({"ign": off, "opt": {"optimize_with_greedy": False}})
                always.append({"ign": off, "opt": rng.choice([{"use_min_gen_set_lowerbound": True}, {"optimize_with_guessed_weights": True},
                                                              {"use_subgraph_scanning_lowerbound": True},
                                                              {"use_min_gen_set_lowerbound": True, "use_min_gen_set_lowerbound_partition_constraints": True}])})
            if off and keep and len(u["nodes"]) >= 4:
                # ignored flow-carrying edges that leave / enter a scanning window: each window's sub-problem ignores exactly the
                # listed edges it contains (boundary edges included), or its optimum is no lower bound for the whole
                always.append({"ign": off, "opt": {"use_subgraph_scanning_lowerbound": True}, "scan_size": rng.choice([1, 2, 3])})
                always.append({"ign": rng.sample(E, rng.randint(1, len(E) - 1)), "scan_size": rng.choice([1, 2]),
                               "opt": {"use_subgraph_scanning_lowerbound": True, "optimize_with_greedy": False}})
        if len(u["nodes"]) >= 3:
            keepn = set(rng.choice(u["proutes"]))
            offn = [v for v in u["nodes"] if v not in keepn]
            if offn:
                always.append({"mode": "node", "ign": offn})
        extra.append({"mode": "node", "drop_nw": rng.randrange(len(u["nodes"]))})
        for cfg in cfgs + (rng.sample(extra, 3) + rng.sample(always, min(3, len(always))) if quick else extra + always):
            r = C.base(u, "MinFlowDecomp", cfg.get("mode", "edge"))
            r["wt"] = "int"
            r["expect_solved"] = True
            for k, v in cfg.items():
                if k == "drop_nw":
                    r["nw"][v] = vlib.NONE      # node without the attribute: must be treated as ignored
                elif k != "mode":
                    r[k] = v
            insts.append(r)
    # subgraph scanning with small windows on the DAG motifs, a constraint crossing the planted routes covered to a fraction:
    # a window sees only part of the constraint, and what it concludes must stay a LOWER bound
    for u in C.motifs()[0]:
        for p in C.crossing_routes(u)[: (2 if quick else 6)]:
            es = C.route_edges(p)
            for size in ((2, 4) if quick else (1, 2, 3, 4, 5)):
                r = C.base(u, "MinFlowDecomp")
                r["wt"] = "int"
                r["expect_solved"] = True
                r["cons"] = [es]
                r["cov"] = rng.choice([[1, 2], [3, 5], [2, 3]])
                r["opt"] = {"use_subgraph_scanning_lowerbound": True}
                r["scan_size"] = size
                insts.append(r)
    # every instance that scans windows is also handed over in two other insertion orders of its nodes and edges (the windows
    # are cut from a topological order the library computes; what it is given first must not matter)
    more = []
    for r in insts:
        if "scan_size" in r:
            for _ in range(2):
                x = dict(r)
                x["order"] = rng.randrange(1, 10 ** 6)
                more.append(x)
    insts += more
    return C.with_ids(insts)


def exact(r):
    # integer weights: the Peel adversary is complete.  float weights: a real-weighted decomposition into
    # <= 2 paths of an integer (scaled) flow implies an integral one (DESIGN C03), so exact iff bound <= 2.
    if r["wt"] == "int":
        return True
    nroutes = len(r["routes"]) if r["solved"] else 99
    return (nroutes - 1) <= 2 if r["solved"] else True   # existence: an integral solution is a float solution


def run(tier, seed):
    res = vlib.Result(PROP, tier, seed)
    rng = random.Random(seed)
    known = vlib.load_known()
    insts = instances(tier, rng)
    P.design_mc(res, "Adv_Peel", "MC_Peel.cfg", os.path.join(vlib.SPEC, "mc", "peel_cover.ndjson"),
                what="Peel machine: residuals never negative; a step changes one residual by exactly the open route's weight")
    recs = P.drive(insts)
    res.evaluations = len(recs)
    P.validate(recs, PROP, res)
    P.min_count_adversary(recs, res, "Adv_Peel", exact, exists_bound=lambda r: max(1, len(r["proutes"])))
    for r in recs:
        if r["solved"]:
            res.count_class("solved")
            if len(r["routes"]) == len(r["edges"]):
                res.count_class("optimum_equals_edge_count")
        if r["mode"] == "node":
            res.count_class("node_mode")
        if r["cons"]:
            res.count_class("with_constraints")
        if len(r["edges"]) == 1:
            res.count_class("single_edge")
    res.samples = [P.brief(r) for r in recs[:2] + recs[-1:]]
    res.rule = ("every TLC-enumerated DAG on <=4 nodes (thorough: <=5) with planted positive conserving integer flows x "
                "default/node/float/MILP + seeded lower-bound options, constraints, ignored elements; non-trivial = a "
                "record on which TLC's Peel adversary explored at least one state")
    return res.finish(known, require_classes=["single_edge", "node_mode", "with_constraints", "adversary_minimality_runs"])


def replay(path, seed):
    import json
    d = json.load(open(path))
    recs = P.drive([d["record"]])
    res = vlib.Result(PROP, "quick", seed)
    P.validate(recs, PROP, res)
    P.min_count_adversary(recs, res, "Adv_Peel", exact, exists_bound=lambda r: max(1, len(r["proutes"])))
    print(json.dumps(P.brief(recs[0])))
    return 1 if res.violations else 0
