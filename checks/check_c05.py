"""C05 - optimisation options never change solvability or the optimal objective."""
import itertools
import random
import vlib
import compose as C
import pipeline as P

PROP = "C05"

WALK_FLAGS = ["optimize_with_safe_sequences", "optimize_with_safe_sequences_allow_geq_constraints",
              "optimize_with_safe_sequences_fix_via_bounds", "optimize_with_safe_sequences_fix_zero_edges",
              "optimize_with_safety_as_subset_constraints", "optimize_with_max_safe_antichain_as_subset_constraints"]
DAG_FLAGS = ["optimize_with_safe_paths", "optimize_with_safe_sequences", "optimize_with_safe_zero_edges",
             "optimize_with_subpath_constraints_as_safe_sequences", "optimize_with_safety_as_subpath_constraints",
             "optimize_with_safety_from_largest_antichain"]
FD_FLAGS = ["optimize_with_greedy", "optimize_with_flow_safe_paths"]
MFD_FLAGS = ["use_min_gen_set_lowerbound", "optimize_with_guessed_weights"]
MFDC_FLAGS = ["use_min_gen_set_lowerbound", "optimize_with_guessed_weights", "add_min_gen_set_to_given_weights"]


def vectors(flags, rng, n_random, full=False):
    """all-off baseline, all-on, each single flag on, each single flag off, + random vectors (or the full product)."""
    if full:
        vs = [dict(zip(flags, bits)) for bits in itertools.product([False, True], repeat=len(flags))]
        return vs
    vs = [{f: False for f in flags}, {f: True for f in flags}]
    for f in flags:
        vs.append({g: (g == f) for g in flags})
        vs.append({g: (g != f) for g in flags})
    if "optimize_with_safe_paths" in flags and "optimize_with_safe_sequences" in flags:
        # all-on is a documented incompatible combination for the DAG models (safe paths AND safe sequences): the two
        # coherent "everything on" vectors, with greedy off so that the model itself has to answer
        for keep, drop in (("optimize_with_safe_sequences", "optimize_with_safe_paths"), ("optimize_with_safe_paths", "optimize_with_safe_sequences")):
            v = {f: True for f in flags}
            v[drop] = False
            if "optimize_with_greedy" in v:
                v["optimize_with_greedy"] = False
            vs.append(v)
    for _ in range(n_random):
        vs.append({f: rng.random() < 0.5 for f in flags})
    seen, out = set(), []
    for v in vs:
        key = tuple(sorted(v.items()))
        if key not in seen:
            seen.add(key)
            out.append(v)
    return out


def flags_of(cls):
    if cls.endswith("Cycles"):
        fl = list(WALK_FLAGS)
        if cls == "MinFlowDecompCycles":
            fl += MFDC_FLAGS
        return fl
    fl = list(DAG_FLAGS)
    if cls in ("kFlowDecomp", "MinFlowDecomp"):
        fl += FD_FLAGS
    if cls == "MinFlowDecomp":
        fl += MFD_FLAGS
    return fl


def instances(tier, rng):
    quick = tier == "quick"
    dag = vlib.universe("dag", 4, k=3, w=3, cap=12)
    cyc = vlib.universe("cyc", 3, maxe=9, k=2, w=2, l=1, cap=6)
    cyc4 = vlib.universe("cyc", 4, maxe=6, k=2, w=2, l=1, cap=4)
    dags = C.spread(dag, 18 if quick else 200)
    cycs = C.spread(cyc, 6 if quick else 40) + C.spread(cyc4, 18 if quick else 250)
    insts = []
    g = 0
    mdag, mcyc = C.motifs()
    mdag, mcyc = C.spread(mdag, 4 if quick else 12), C.spread(mcyc, 4 if quick else 18)
    for us, classes in ((dags, C.DAG_K + C.DAG_MIN), (cycs, C.CYC_K + C.CYC_MIN),
                        (mdag, ["MinFlowDecomp", "kFlowDecomp", "kMinPathError"]), (mcyc, ["MinFlowDecompCycles", "kLeastAbsErrorsCycles"])):
        for u in us:
            for cls in classes:
                cover = cls in C.COVER
                variants = [{}]
                es = C.route_edges(rng.choice(u["proutes"]))
                variants.append({"cons": [es[:2]]})
                if len(u["nodes"]) > 4 and not cls.endswith("Cycles"):
                    # a constraint crossing the planted routes, to be covered to a fraction whose product with the
                    # length is not integral: shortcuts (greedy, safe paths) and the model must agree on the threshold
                    cr = C.crossing_routes(u)
                    if cr:
                        ce = C.route_edges(rng.choice(cr))
                        variants.append({"cons": [[ce[0], ce[-1]]], "cov": rng.choice([[3, 4], [2, 3]])})
                        variants.append({"cons": [ce], "cov": rng.choice([[3, 4], [1, 2], [2, 3]])})
                        # length coverage below 1 (with safety lists as subpath constraints among the flags): a relaxed
                        # constraint must not be treated as fully covered
                        pe = C.route_edges(rng.choice(u["proutes"]))
                        variants.append({"cons": [rng.choice([ce, pe[:2], [ce[0], ce[-1]]])], "covlen": rng.choice([[3, 5], [1, 2], [7, 10]]),
                                         "elen": [rng.choice([1, 2, 4, 6]) for _ in u["edges"]]})
                if not quick or (cls in C.MINCLS and rng.random() < 0.5):
                    variants.append({"mode": "node"})
                for var in variants:
                    g += 1
                    flags = flags_of(cls)
                    # some groups run under a finite time limit with the wrapper's own (signal based) timeout armed as well:
                    # generous enough never to fire, but a different route through SolverWrapper.optimize
                    sopt = {"time_limit": 300, "use_also_custom_timeout": True} if rng.random() < 0.3 else None
                    full = (not quick) and len(flags) <= 6 and rng.random() < 0.15
                    for vec in vectors(flags, rng, 3 if quick else 6, full=full):
                        r = C.base(u, cls, var.get("mode", "edge"))
                        r.update({k: v for k, v in var.items() if k != "mode"})
                        if not cover:
                            r["wt"] = "int"
                        if cls not in C.MINCLS:
                            r["k"] = max(1, len(u["proutes"]))
                        r["opt"] = dict(vec)
                        if sopt:
                            r["sopt"] = dict(sopt)
                        r["grp"] = g
                        insts.append(r)
                    if cls in ("kMinPathErrorCycles", "kLeastAbsErrorsCycles"):
                        # the trusted edges chosen by a percentile of the weights (a subset of the default choice): same answer
                        for pct in (50, 100):
                            r = C.base(u, cls, var.get("mode", "edge"))
                            r.update({k: v for k, v in var.items() if k != "mode"})
                            r["wt"] = "int"
                            r["k"] = max(1, len(u["proutes"]))
                            r["opt"] = {f: True for f in flags}
                            r["trustpct"] = pct
                            r["grp"] = g
                            insts.append(r)
    # the error models on weights that are NOT a flow, with one positive element scaled to 0 (= ignored): whether the optimum
    # uses that element or avoids it, the safety machinery must not have an opinion about it
    import fitcommon as F
    for u0 in C.spread(cycs, 6 if quick else 60) + mcyc[:2 if quick else 8]:
        for u in (F.perturb(u0, rng, nmax=2), F.wild(u0, rng, values=(0, 1, 3, 10))):
            pos = [list(e) for e, w in zip(u["edges"], u["ew"]) if w > 0]
            if not pos:
                continue
            for cls in ("kMinPathErrorCycles", "kLeastAbsErrorsCycles"):
                g += 1
                e = rng.choice(pos)
                flags = flags_of(cls)
                for vec in vectors(flags, rng, 2 if quick else 4):
                    r = C.base(u, cls)
                    r["wt"] = "int"
                    r["k"] = max(1, len(u0["proutes"]))
                    r["escale"] = [[e, 0, 1]]
                    r["opt"] = dict(vec)
                    r["grp"] = g
                    insts.append(r)
    # ... and deliberately: a positive, zero-scaled element in a part of the graph that carries no weight otherwise (the optimum
    # leaves it alone; an element that is ignored must not be trusted by the safety machinery either)
    for u0 in C.spread(vlib.universe("cyc", 4, maxe=6, k=2, w=2, l=1, cap=4), 40 if quick else 400) + C.motifs()[1]:
        lo = C.lonely(u0, rng)
        if not lo:
            continue
        u, e = lo
        for cls in ("kMinPathErrorCycles", "kLeastAbsErrorsCycles"):
            g += 1
            flags = flags_of(cls)
            for vec in vectors(flags, rng, 1 if quick else 3):
                r = C.base(u, cls)
                r["wt"] = "int"
                r["k"] = max(1, len(u["proutes"]))
                r["escale"] = [[e, 0, 1]]
                r["opt"] = dict(vec)
                r["grp"] = g
                insts.append(r)
    # DAG motifs, a constraint crossing the planted routes whose FIRST edge alone carries the requested length fraction:
    # baseline against the two coherent "everything on" vectors (safety lists as subpath constraints, constraints as safe
    # sequences, ...): a relaxed constraint must not be extended into a mandatory one
    for u in C.motifs()[0]:
        for p in C.crossing_routes(u)[: (1 if quick else 4)]:
            ce = C.route_edges(p)
            for cls in ("kMinPathError", "MinFlowDecomp", "kFlowDecomp"):
                g += 1
                flags = flags_of(cls)
                elen = [6 if list(e) == list(ce[0]) else rng.choice([1, 2, 4]) for e in u["edges"]]
                vecs = [{f: False for f in flags}]
                for drop in ("optimize_with_safe_paths", "optimize_with_safe_sequences"):
                    v = {f: True for f in flags}
                    v[drop] = False
                    for off in ("optimize_with_greedy", "optimize_with_flow_safe_paths", "use_min_gen_set_lowerbound", "optimize_with_guessed_weights"):
                        if off in v:
                            v[off] = False
                    vecs.append(v)
                for vec in vecs:
                    r = C.base(u, cls)
                    r["wt"] = "int"
                    if cls not in C.MINCLS:
                        r["k"] = max(1, len(u["proutes"]))
                    r["cons"] = [ce[:2]]
                    r["covlen"] = [3, 5]
                    r["elen"] = elen
                    r["opt"] = dict(vec)
                    r["grp"] = g
                    insts.append(r)
    return C.with_ids(insts)


def run(tier, seed):
    res = vlib.Result(PROP, tier, seed)
    rng = random.Random(seed)
    known = vlib.load_known()
    insts = instances(tier, rng)
    recs = P.drive(insts, limit=120)
    res.evaluations = len(recs)
    for r in recs:
        # documented incompatible combinations raise ValueError("Cannot optimize with both ..."): recorded, skipped
        r["skip"] = bool((r["ctor_exc"] == "ValueError" and "Cannot optimize with both" in r.get("ctor_msg", "")) or
                         (r["solve_exc"] == "ValueError" and "Cannot optimize with both" in r.get("solve_msg", "")))
        r["documented_incompat"] = r["skip"]
        if r["skip"]:
            res.count_class("documented_incompatible_combination")
    P.validate(recs, PROP, res)
    vlib.validate_groups([dict(r) for r in recs], PROP, res)
    for r in recs:
        if r["solved"]:
            res.count_class("solved")
        if r.get("set_zero") or r["opt"].get("optimize_with_safe_sequences_fix_zero_edges"):
            res.count_class("runs_with_zero_fixing_enabled")
        if r["opt"].get("optimize_with_safe_sequences_fix_via_bounds") and r["opt"].get("optimize_with_safe_sequences"):
            res.count_class("runs_with_bound_fixing_enabled")
    res.count_class("groups", len({r["grp"] for r in recs}))
    res.samples = [P.brief(r) for r in recs[:2] + recs[-1:]]
    res.rule = ("for every sampled input x model class: the all-off baseline, all-on, every single flag on / off and seeded random "
                "flag vectors (thorough: full cross products on a subset); Trace_Groups requires every run of a group to reproduce "
                "the baseline's solved status and objective; a group is non-trivial when it has >= 2 usable runs")
    P.attribute_presolve(res, known)
    return res.finish(known, require_classes=["solved", "groups", "runs_with_bound_fixing_enabled"])


def replay(path, seed):
    import json
    d = json.load(open(path))
    rec = d["record"]
    ref = dict(rec)
    ref["opt"] = d["extra"]["reference_run"]["opt"] if d.get("extra") else {}
    ref["id"] = 1
    rec["id"] = 2
    rec["grp"] = ref["grp"] = 1
    recs = P.drive([ref, rec])
    for r in recs:
        r["skip"] = False
        r["documented_incompat"] = False
    res = vlib.Result(PROP, "quick", seed)
    vlib.validate_groups(recs, PROP, res)
    print(json.dumps([P.brief(r) for r in recs]))
    return 1 if res.violations else 0
