"""Purely syntactic composition of instances: universe entry (from TLC) x configuration.
Nothing here knows what a correct answer is."""
import random

DAG_K = ["kFlowDecomp", "kMinPathError", "kLeastAbsErrors", "kPathCover"]
DAG_MIN = ["MinFlowDecomp", "MinPathCover"]
CYC_K = ["kFlowDecompCycles", "kMinPathErrorCycles", "kLeastAbsErrorsCycles", "kPathCoverCycles"]
CYC_MIN = ["MinFlowDecompCycles", "MinPathCoverCycles"]
COVER = {"kPathCover", "MinPathCover", "kPathCoverCycles", "MinPathCoverCycles"}
FD = {"MinFlowDecomp", "kFlowDecomp", "MinFlowDecompCycles", "kFlowDecompCycles"}
MINCLS = set(DAG_MIN + CYC_MIN)
# classes that accept additional_starts / additional_ends in edge mode
NO_STARTS_EDGE = {"MinFlowDecomp", "MinFlowDecompCycles", "kFlowDecomp"}


def base(u, cls, mode="edge"):
    r = {"cls": cls, "nodes": list(u["nodes"]), "edges": [list(e) for e in u["edges"]], "mode": mode}
    if mode == "edge":
        r["ew"] = list(u["ew"])
    else:
        r["nw"] = list(u["nw"])
    r["proutes"] = [list(p) for p in u.get("proutes", [])]
    r["pweights"] = list(u.get("pweights", []))
    return r


def with_ids(insts, start=1):
    for i, r in enumerate(insts):
        r["id"] = start + i
    return insts


def route_edges(p):
    return [[p[i], p[i + 1]] for i in range(len(p) - 1)]


def rename_scheme(u, names):
    """apply a node renaming (pure)"""
    m = {v: names[i] for i, v in enumerate(u["nodes"])}
    r = dict(u)
    r["nodes"] = [m[v] for v in u["nodes"]]
    r["edges"] = [[m[a], m[b]] for a, b in u["edges"]]
    r["proutes"] = [[m[v] for v in p] for p in u.get("proutes", [])]
    return r


def pick(seq, n, rng):
    seq = list(seq)
    if len(seq) <= n:
        return seq
    return rng.sample(seq, n)


def spread(seq, n):
    seq = list(seq)
    if len(seq) <= n:
        return seq
    return [seq[(i * len(seq)) // n] for i in range(n)]
