"""Purely syntactic composition of instances: universe entry (from TLC) x configuration.
Nothing here knows what a correct answer is."""
import random

DAG_K = ["kFlowDecomp", "kMinPathError", "kLeastAbsErrors", "kPathCover"]
DAG_MIN = ["MinFlowDecomp", "MinPathCover"]
CYC_K = ["kFlowDecompCycles", "kMinPathErrorCycles", "kLeastAbsErrorsCycles", "kPathCoverCycles"]
CYC_MIN = ["MinFlowDecompCycles", "MinPathCoverCycles"]
COVER = {"kPathCover", "MinPathCover", "kPathCoverCycles", "MinPathCoverCycles"}
FD = {"MinFlowDecomp", "kFlowDecomp", "MinFlowDecompCycles", "kFlowDecompCycles"}
MINCLS = set(DAG_MIN + CYC_MIN)
# classes that accept additional_starts / additional_ends in edge mode
NO_STARTS_EDGE = {"MinFlowDecomp", "MinFlowDecompCycles", "kFlowDecomp"}


def base(u, cls, mode="edge"):
    r = {"cls": cls, "nodes": list(u["nodes"]), "edges": [list(e) for e in u["edges"]], "mode": mode}
    if mode == "edge":
        r["ew"] = list(u["ew"])
    else:
        r["nw"] = list(u["nw"])
    r["proutes"] = [list(p) for p in u.get("proutes", [])]
    r["pweights"] = list(u.get("pweights", []))
    return r


def with_ids(insts, start=1):
    for i, r in enumerate(insts):
        r["id"] = start + i
    return insts


def route_edges(p):
    return [[p[i], p[i + 1]] for i in range(len(p) - 1)]


def rename_scheme(u, names):
    """apply a node renaming (pure)"""
    m = {v: names[i] for i, v in enumerate(u["nodes"])}
    r = dict(u)
    r["nodes"] = [m[v] for v in u["nodes"]]
    r["edges"] = [[m[a], m[b]] for a, b in u["edges"]]
    r["proutes"] = [[m[v] for v in p] for p in u.get("proutes", [])]
    return r


def pick(seq, n, rng):
    seq = list(seq)
    if len(seq) <= n:
        return seq
    return rng.sample(seq, n)


def spread(seq, n):
    seq = list(seq)
    if len(seq) <= n:
        return seq
    return [seq[(i * len(seq)) // n] for i in range(n)]


def random_cyclic(rng, n, m, tries=200):
    """seeded random digraph on n nodes with m edges (self-loops allowed) that has a source, a sink, at least one
    cycle and every edge on a source-to-sink walk (the documented domain of the cyclic models).  Generation only:
    nothing here says what a correct answer is."""
    import networkx as nx
    names = list("abcdefgh")[:n]
    for _ in range(tries):
        G = nx.DiGraph()
        G.add_nodes_from(names)
        while G.number_of_edges() < m:
            u, v = rng.choice(names), rng.choice(names)
            G.add_edge(u, v)
        srcs = [v for v in G if G.in_degree(v) == 0]
        snks = [v for v in G if G.out_degree(v) == 0]
        if not srcs or not snks or nx.is_directed_acyclic_graph(G):
            continue
        from_s = set(srcs)
        for s in srcs:
            from_s |= nx.descendants(G, s)
        to_t = set(snks)
        for t in snks:
            to_t |= nx.ancestors(G, t)
        if all(u in from_s and v in to_t for u, v in G.edges()) and all(G.degree(v) > 0 for v in G):
            edges = sorted([u, v] for u, v in G.edges())
            return {"nodes": sorted(G.nodes()), "edges": edges, "ew": [1] * len(edges), "nw": [1] * n,
                    "proutes": [], "pweights": []}
    return None


def motifs():
    """planted-flow instances on the hand-picked larger shapes of Universe!MotifShapes -> (dag entries, cyclic entries)"""
    import vlib
    ms = vlib.universe("motif", 6, maxe=0, k=2, w=2, l=1, cap=6)
    cyc = [m for m in ms if _has_cycle(m)]
    dag = [m for m in ms if not _has_cycle(m)]
    return dag, cyc


def _has_cycle(u):
    import networkx as nx
    G = nx.DiGraph()
    G.add_edges_from([tuple(e) for e in u["edges"]])
    return not nx.is_directed_acyclic_graph(G)


def crossing_routes(u, min_nodes=4):
    """source-to-sink paths of a DAG entry that are NOT planted routes (they cross from one planted route to another)."""
    import networkx as nx
    G = nx.DiGraph([tuple(e) for e in u["edges"]])
    srcs = [v for v in G if G.in_degree(v) == 0]
    snks = [v for v in G if G.out_degree(v) == 0]
    planted = {tuple(p) for p in u["proutes"]}
    return [p for a in srcs for b in snks for p in nx.all_simple_paths(G, a, b) if tuple(p) not in planted and len(p) >= min_nodes]
