"""Purely syntactic composition of instances: universe entry (from TLC) x configuration.
Nothing here knows what a correct answer is."""
import random

DAG_K = ["kFlowDecomp", "kMinPathError", "kLeastAbsErrors", "kPathCover"]
DAG_MIN = ["MinFlowDecomp", "MinPathCover"]
CYC_K = ["kFlowDecompCycles", "kMinPathErrorCycles", "kLeastAbsErrorsCycles", "kPathCoverCycles"]
CYC_MIN = ["MinFlowDecompCycles", "MinPathCoverCycles"]
COVER = {"kPathCover", "MinPathCover", "kPathCoverCycles", "MinPathCoverCycles"}
FD = {"MinFlowDecomp", "kFlowDecomp", "MinFlowDecompCycles", "kFlowDecompCycles"}
MINCLS = set(DAG_MIN + CYC_MIN)
# classes that accept additional_starts / additional_ends in edge mode
NO_STARTS_EDGE = {"MinFlowDecomp", "MinFlowDecompCycles", "kFlowDecomp"}


def base(u, cls, mode="edge"):
    r = {"cls": cls, "nodes": list(u["nodes"]), "edges": [list(e) for e in u["edges"]], "mode": mode}
    if mode == "edge":
        r["ew"] = list(u["ew"])
    else:
        r["nw"] = list(u["nw"])
    r["proutes"] = [list(p) for p in u.get("proutes", [])]
    r["pweights"] = list(u.get("pweights", []))
    return r


def with_ids(insts, start=1):
    for i, r in enumerate(insts):
        r["id"] = start + i
    return insts


def route_edges(p):
    return [[p[i], p[i + 1]] for i in range(len(p) - 1)]


def rename_scheme(u, names):
    """apply a node renaming (pure)"""
    m = {v: names[i] for i, v in enumerate(u["nodes"])}
    r = dict(u)
    r["nodes"] = [m[v] for v in u["nodes"]]
    r["edges"] = [[m[a], m[b]] for a, b in u["edges"]]
    r["proutes"] = [[m[v] for v in p] for p in u.get("proutes", [])]
    return r


# node names that are prefixes / suffixes of each other around '_' (the separator of the library's helper-node names):
# ("a", "b_c") and ("a_b", "c") are different edges
UNDERSCORED = ["a", "a_b", "b_c", "c", "b", "a_b_c", "c_c"]


def pick(seq, n, rng):
    seq = list(seq)
    if len(seq) <= n:
        return seq
    return rng.sample(seq, n)


_SPREAD_CALLS = [0]


def spread(seq, n):
    """n members of seq, one from each of n consecutive strata, the member within its stratum chosen by a generator
    seeded with VERIF_SEED (so that different seeds visit different members of the universes, and an evenly spaced
    pick cannot alias with the product order in which a universe was enumerated)."""
    import os
    import random
    seq = list(seq)
    if len(seq) <= n:
        return seq
    _SPREAD_CALLS[0] += 1
    rng = random.Random(f"spread:{os.environ.get('VERIF_SEED', '0')}:{_SPREAD_CALLS[0]}:{len(seq)}:{n}")
    out = []
    for i in range(n):
        lo, hi = (i * len(seq)) // n, ((i + 1) * len(seq)) // n
        out.append(seq[rng.randrange(lo, max(lo + 1, hi))])
    return out


def random_cyclic(rng, n, m, tries=200):
    """seeded random digraph on n nodes with m edges (self-loops allowed) that has a source, a sink, at least one
    cycle and every edge on a source-to-sink walk (the documented domain of the cyclic models).  Generation only:
    nothing here says what a correct answer is."""
    import networkx as nx
    names = list("abcdefgh")[:n]
    for _ in range(tries):
        G = nx.DiGraph()
        G.add_nodes_from(names)
        while G.number_of_edges() < m:
            u, v = rng.choice(names), rng.choice(names)
            G.add_edge(u, v)
        srcs = [v for v in G if G.in_degree(v) == 0]
        snks = [v for v in G if G.out_degree(v) == 0]
        if not srcs or not snks or nx.is_directed_acyclic_graph(G):
            continue
        from_s = set(srcs)
        for s in srcs:
            from_s |= nx.descendants(G, s)
        to_t = set(snks)
        for t in snks:
            to_t |= nx.ancestors(G, t)
        if all(u in from_s and v in to_t for u, v in G.edges()) and all(G.degree(v) > 0 for v in G):
            edges = sorted([u, v] for u, v in G.edges())
            return {"nodes": sorted(G.nodes()), "edges": edges, "ew": [1] * len(edges), "nw": [1] * n,
                    "proutes": [], "pweights": []}
    return None


def motifs():
    """planted-flow instances on the hand-picked larger shapes of Universe!MotifShapes -> (dag entries, cyclic entries)"""
    import vlib
    ms = vlib.universe("motif", 6, maxe=0, k=2, w=2, l=1, cap=6)
    cyc = [m for m in ms if _has_cycle(m)]
    dag = [m for m in ms if not _has_cycle(m)]
    return dag, cyc


def _has_cycle(u):
    import networkx as nx
    G = nx.DiGraph()
    G.add_edges_from([tuple(e) for e in u["edges"]])
    return not nx.is_directed_acyclic_graph(G)


def crossing_routes(u, min_nodes=4):
    """source-to-sink paths of a DAG entry that are NOT planted routes (they cross from one planted route to another)."""
    import networkx as nx
    G = nx.DiGraph([tuple(e) for e in u["edges"]])
    srcs = [v for v in G if G.in_degree(v) == 0]
    snks = [v for v in G if G.out_degree(v) == 0]
    planted = {tuple(p) for p in u["proutes"]}
    return [p for a in srcs for b in snks for p in nx.all_simple_paths(G, a, b) if tuple(p) not in planted and len(p) >= min_nodes]


def replant(u, rng, weights=(1, 1, 3, 4, 5), max_extra=4):
    """the same shape with its planted routes re-weighted and up to max_extra closed sub-walks
    of each planted walk traversed once more; flows (edge and node) recomputed as the superposition.  Pure instance composition."""
    routes = []
    for p in u["proutes"]:
        q = list(p)
        for _ in range(rng.randint(0, max_extra)):
            closed = [(i, j) for i in range(len(q)) for j in range(i + 1, len(q)) if q[i] == q[j] and j - i <= 3]
            if not closed:
                break
            i, j = rng.choice(closed)
            q = q[:j] + q[i:j] + q[j:]          # traverse that closed sub-walk once more
        routes.append(q)
    ws = [rng.choice(weights) for _ in routes]
    v = dict(u)
    v["proutes"], v["pweights"] = routes, ws
    ef = {tuple(e): 0 for e in u["edges"]}
    nf = {n: 0 for n in u["nodes"]}
    for q, w in zip(routes, ws):
        for a, b in zip(q[:-1], q[1:]):
            ef[(a, b)] += w
        for n in q:
            nf[n] += w
    v["ew"] = [ef[tuple(e)] for e in u["edges"]]
    v["nw"] = [nf[n] for n in u["nodes"]]
    return v


def light_looping(u, rng, n=2):
    """flows in which a LIGHT walk (weight 1) spins on two different self-loops a different number of times while a heavy
    walk takes the same route without spinning: numbers like {w+1, m1, m2} that no two generators with small
    multiplicities explain.  Returns up to n re-planted copies of u (none if no planted walk passes two self-loops)."""
    out = []
    loops = {e[0] for e in u["edges"] if e[0] == e[1]}
    for p in u["proutes"]:
        plain = [v for i, v in enumerate(p) if i == 0 or p[i - 1] != v]
        on = [v for v in plain if v in loops]
        if len(set(on)) < 2 or len(set(plain)) != len(plain):
            continue
        for _ in range(n):
            a, b = rng.sample(sorted(set(on)), 2)
            m = {a: rng.choice([2, 3, 4]), b: rng.choice([3, 4, 5, 7])}
            if m[a] == m[b]:
                m[b] += 1
            light = []
            for v in plain:
                light += [v] * (1 + m.get(v, 0))
            v2 = dict(u)
            v2["proutes"], v2["pweights"] = [light, plain], [1, rng.choice([3, 4, 5, 6])]
            ef = {tuple(e): 0 for e in u["edges"]}
            nf = {x: 0 for x in u["nodes"]}
            ok = True
            for q, w in zip(v2["proutes"], v2["pweights"]):
                for x, y in zip(q[:-1], q[1:]):
                    if (x, y) not in ef:
                        ok = False
                        break
                    ef[(x, y)] += w
                for x in q:
                    nf[x] += w
            if ok and all(f > 0 for f in ef.values()):
                v2["ew"] = [ef[tuple(e)] for e in u["edges"]]
                v2["nw"] = [nf[x] for x in u["nodes"]]
                out.append(v2)
        break
    return out


def random_dag(rng, n, m):
    """seeded random DAG on n nodes (edges low -> high name), isolated nodes dropped.  Generation only."""
    names = list("abcdefgh")[:n]
    E = set()
    while len(E) < m:
        i, j = sorted(rng.sample(range(n), 2))
        E.add((names[i], names[j]))
    used = sorted({v for e in E for v in e})
    edges = sorted([u, v] for u, v in E)
    return {"nodes": used, "edges": edges, "ew": [1] * len(edges), "nw": [1] * len(used), "proutes": [], "pweights": []}


def bipartite_scc(p, q, extra_exit=False):
    """s -> a -> t, a -> c, c -> d_i, d_i -> e_j (complete bipartite), e_j -> a: one big strongly connected component that is
    entered through the single edge (a, c); a covering walk has to cross (a, c) once per bipartite edge (p*q times).
    With extra_exit a second way out (c -> u -> t) adds a competing branch.  Generation only."""
    E = [["s", "a"], ["a", "t"], ["a", "c"]]
    ds, es = [f"d{i}" for i in range(p)], [f"e{j}" for j in range(q)]
    E += [["c", d] for d in ds] + [[d, e] for d in ds for e in es] + [[e, "a"] for e in es]
    nodes = ["s", "a", "t", "c"] + ds + es
    if extra_exit:
        E += [["c", "u"], ["u", "t"]]
        nodes.append("u")
    return {"nodes": nodes, "edges": sorted(E), "ew": [1] * len(E), "nw": [1] * len(nodes), "proutes": [], "pweights": []}


def zeroed(u):
    """the planted flow of u without its last planted route: edges / nodes only that route used carry flow 0 now.
    None if u has a single planted route.  Pure instance composition."""
    if len(u["proutes"]) < 2:
        return None
    routes, ws = u["proutes"][:-1], u["pweights"][:-1]
    ef = {tuple(e): 0 for e in u["edges"]}
    nf = {n: 0 for n in u["nodes"]}
    for q, w in zip(routes, ws):
        for a, b in zip(q[:-1], q[1:]):
            ef[(a, b)] += w
        for n in q:
            nf[n] += w
    v = dict(u)
    v["proutes"], v["pweights"] = routes, ws
    v["ew"] = [ef[tuple(e)] for e in u["edges"]]
    v["nw"] = [nf[n] for n in u["nodes"]]
    return v if 0 in v["ew"] else None


def lonely(u, rng):
    """zeroed(u) with ONE of its zero-flow edges given a positive value again: an element carrying weight in a part of the graph
    that carries none otherwise (ignoring it - by scale 0 or by name - makes the remaining weights a flow again).
    Returns (instance, that edge) or None.  Pure instance composition."""
    z = zeroed(u)
    if not z:
        return None
    zero = [i for i, w in enumerate(z["ew"]) if w == 0]
    if not zero:
        return None
    i = rng.choice(zero)
    v = dict(z)
    v["ew"] = list(z["ew"])
    v["ew"][i] = rng.choice([2, 3, 5])
    return v, list(z["edges"][i])


def scc_edges(u):
    """the edges of u that lie inside a strongly connected component (self-loops included)"""
    import networkx as nx
    G = nx.DiGraph([tuple(e) for e in u["edges"]])
    comp = {}
    for i, c in enumerate(nx.strongly_connected_components(G)):
        for v in c:
            comp[v] = i
    return [list(e) for e in u["edges"] if comp[e[0]] == comp[e[1]]]
