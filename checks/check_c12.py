"""C12 - MILP building blocks encode exactly the relation they name."""
import os
import random
import shutil
import vlib
import compose as C
import pipeline as P

PROP = "C12"


def mc(res, module, cfg, what, workers=16, timeout=1200):
    r = vlib.run_tlc(module, cfg, workers=workers, timeout=timeout, heap="6g")
    ok = vlib.tlc_ok(r)
    res.add_tlc(r)
    res.mc.append(dict(what, config=cfg, distinct_states=r["distinct"], states=r["states"], ok=ok))
    if not ok:
        if "violated" in r["stdout"]:
            res.violation("DesignLevel_" + module, {"id": module, "tlc": r["stdout"][-2500:]})
        else:
            raise vlib.Machinery(f"{module} failed: " + r["stdout"][-1500:])


def apalache_binary_gadget(res):
    """Unbounded (all integers) check of the binary McCormick gadget with Apalache/SMT. A stall or tool failure is
    reported as 'not discharged' in the evidence, never as a violation."""
    import subprocess, tempfile, shutil
    out = tempfile.mkdtemp(prefix="apa_", dir=vlib.scratch_dir())
    try:
        p = subprocess.run(["apalache-mc", "check", "--init=Init", "--inv=BinExact", "--length=0", "--out-dir=" + out,
                            "Apa_Gadgets.tla"], cwd=vlib.SPEC, capture_output=True, text=True, timeout=240)
        txt = p.stdout + p.stderr
    except Exception as e:
        txt = "TIMEOUT/FAILURE " + str(e)
    shutil.rmtree(out, ignore_errors=True)
    if "The outcome is: NoError" in txt:
        res.mc.append({"tool": "apalache 0.58", "module": "Apa_Gadgets", "property": "BinExact for all integers ub>=0, 0<=c<=ub, b in {0,1}, all p",
                       "discharged": True})
        res.clause("Apalache_BinExact_unbounded", 1, 0)
    elif "The outcome is: Error" in txt:
        res.clause("Apalache_BinExact_unbounded", 1, 1)
        res.violation("DesignLevel_Apa_Gadgets", {"id": "Apa_Gadgets", "apalache": txt[-1500:]})
    else:
        res.mc.append({"tool": "apalache 0.58", "module": "Apa_Gadgets", "discharged": False, "note": txt[-300:]})


def histories(tier, seed, res):
    """TLC -simulate behaviours of Wrapper.tla (Gen_Wrapper.tla carries the history variable)."""
    num = 400 if tier == "quick" else 4000
    r = vlib.run_tlc("Gen_Wrapper", "Gen_Wrapper.cfg", workers=1, timeout=900, simulate=f"num={num}",
                     extra=["-depth", "10", "-seed", str(seed + 1)])
    out = r["stdout"]
    hs = vlib.extract_tagged(out, tags=("HISTORY",))
    if not hs:
        raise vlib.Machinery("no histories generated: " + out[-1500:])
    res.add_tlc(r)
    seen, uniq = set(), []
    for h in hs:
        key = str(h[1])
        if key not in seen:
            seen.add(key)
            uniq.append(h[1])
    # keep the informative ones: at least one optimize; prefer histories with queued requests before an optimize
    rich = [h for h in uniq if sum(1 for op in h if op[0] == "opt") >= 1]
    # directed histories: batches of queued requests over three variables with pairwise different bounds, in every order
    rb = vlib.run_tlc("Gen_WrapperBatch", "Gen_WrapperBatch.cfg", workers=1, timeout=600)
    hb = [h[1] for h in vlib.extract_tagged(rb["stdout"], tags=("HISTORY",))]
    if not hb:
        raise vlib.Machinery("no batch histories generated: " + rb["stdout"][-1500:])
    hb.sort(key=str)
    res.count_class("batch_histories", len(hb))
    import random as _r
    return rich, (_r.Random(seed).sample(hb, 200) if tier == "quick" else hb)   # (an even spread would alias with the product order)


def gadget_instances(tier):
    quick = tier == "quick"
    insts = []
    ubs = [0, 1, 2, 3, 4, 5, 6, 7, 12]
    for ub in ubs:
        probes = [{"b": b, "c": c} for b in (0, 1) for c in range(0, ub + 1)]
        insts.append({"gadget": "binary", "ub": ub, "probes": probes if ub <= 7 else probes[::3], "enumerate": ub <= 4})
        for cub in sorted({ub, max(0, ub // 2)}):
            pr = [{"x": x, "c": c} for x in range(0, ub + 1) for c in range(0, cub + 1) if x * c <= ub]
            if quick and len(pr) > 24:
                pr = pr[:: max(1, len(pr) // 24)]
            insts.append({"gadget": "integer", "ub": ub, "cub": cub, "xub": ub, "probes": pr, "enumerate": ub <= 3})
    # fractional bounds (in tenths): the product may stay below a non-integral ub while the integer factor exceeds floor(ub);
    # probes only (values are tenths, `den` = 10)
    for ub10, xub in ((35, 4), (79, 8), (5, 1), (15, 2), (70, 7)):
        # (the continuous factor stays within [0, ub] as well: the helper is built from the binary helper, which documents
        #  lb <= continuous_var <= ub)
        cub10 = min(10, ub10)
        pr = [{"x": x, "c": c10} for x in range(0, xub + 1) for c10 in (0, 4, 8, 9, 10) if x * c10 <= ub10 and c10 <= cub10]
        insts.append({"gadget": "integer", "ub": ub10, "cub": cub10, "xub": xub, "den": 10, "probes": pr, "enumerate": False})
    pws = [([[0, 2], [3, 5]], [7, 9]), ([[0, 0], [1, 3], [4, 6]], [2, 0, 5]), ([[1, 2], [4, 6]], [3, 1]),
           ([[0, 1], [2, 3]], [0, 40]), ([[0, 6]], [4]), ([[0, 1], [2, 2], [3, 6]], [1, 2, 3]),
           # a wide lowest range followed by narrow ones (and the other way round): the relaxation constant of the range rows has
           # to span from the smallest lower end to the largest upper end
           ([[0, 40], [41, 45], [46, 50]], [1, 2, 3]), ([[0, 100], [101, 110]], [2, 1]), ([[0, 20], [21, 22]], [5, 0]),
           ([[0, 1], [2, 60]], [3, 1]), ([[5, 6], [7, 8], [9, 90]], [1, 0, 2])]
    for ranges, consts in pws:
        lo, hi = min(r[0] for r in ranges), max(r[1] for r in ranges)
        insts.append({"gadget": "piecewise", "ranges": ranges, "constants": consts,
                      "probes": [{"x": x} for x in range(lo - 1, hi + 2)], "enumerate": max(consts) <= 12 and hi <= 12})
    return insts


def run(tier, seed):
    res = vlib.Result(PROP, tier, seed)
    known = vlib.load_known()
    # design level
    mc(res, "MC_Gadgets", "MC_Gadgets.cfg", {"what": "binary / integer / piecewise gadgets exact on the grid ub<=12"})
    mc(res, "Wrapper", "MC_Wrapper.cfg", {"what": "queued updates invisible until Optimize; LB request leaves UB alone"})
    apalache_binary_gadget(res)
    # histories
    hs, hb = histories(tier, seed, res)
    if tier == "quick":
        hs = C.spread(hs, 1500)
    hs = hs + hb
    insts = [{"id": i + 1, "ops": h} for i, h in enumerate(hs)]
    # two wrappers alive at once, their histories interleaved (every merge keeps each history's own order): each wrapper's
    # calls and answers must still be a behaviour of Wrapper.tla on its own
    import random as _r
    prng = _r.Random(seed + 7)
    pairs = []
    for j in range(150 if tier == "quick" else 1500):
        ha, hbb = prng.choice(hs), prng.choice(hs)
        order = ["a"] * len(ha) + ["b"] * len(hbb)
        if prng.random() < 0.5:
            prng.shuffle(order)
        else:        # both optimise before either reads: A..., B..., then the reads alternate
            ta, tb = min(2, len(ha)), min(2, len(hbb))
            order = ["a"] * (len(ha) - ta) + ["b"] * (len(hbb) - tb) + (["a", "b"] * max(ta, tb))
            order = [x for k, x in enumerate(order)]
            ca = cb = 0
            fixed = []
            for x in order:
                if x == "a" and ca < len(ha):
                    fixed.append("a"); ca += 1
                elif x == "b" and cb < len(hbb):
                    fixed.append("b"); cb += 1
            order = fixed + ["a"] * (len(ha) - ca) + ["b"] * (len(hbb) - cb)
        pairs.append({"id": 800000 + j, "ops_a": ha, "ops_b": hbb, "order": order})
    gad = gadget_instances(tier)
    for j, g in enumerate(gad):
        g["id"] = len(insts) + j + 1
    sc = vlib.scratch_dir()
    src, dst = os.path.join(sc, "i.ndjson"), os.path.join(sc, "o.ndjson")
    vlib.write_ndjson(src, insts + gad + pairs)
    vlib.run_harness("drive_wrapper.py", [src, dst])
    recs = []
    for r in vlib.read_ndjson(dst):
        if r.get("pair"):
            recs += [r["a"], r["b"]]
            res.count_class("interleaved_wrapper_pairs")
        else:
            recs.append(r)
    shutil.rmtree(sc, ignore_errors=True)
    hrecs = [r for r in recs if "ops" in r]
    grecs = [r for r in recs if "gadget" in r]
    for g in grecs:
        for key, dflt in (("ub", 0), ("cub", 0), ("xub", 0), ("ranges", []), ("constants", []), ("den", 1)):
            g.setdefault(key, dflt)
    # histories -> Trace_Wrapper
    sc = vlib.scratch_dir()
    files = []
    for i, sh in enumerate(vlib.shard(hrecs, 16)):
        p = os.path.join(sc, f"h{i}.ndjson")
        vlib.write_ndjson(p, sh)
        files.append(p)
    rs = vlib.run_shards("Trace_Wrapper", "Trace_Wrapper.cfg", files, {}, timeout=1200)
    shutil.rmtree(sc, ignore_errors=True)
    byid = {r["id"]: r for r in recs}
    nver = 0
    for r in rs:
        if not vlib.tlc_ok(r):
            raise vlib.Machinery("Trace_Wrapper failed: " + r["stdout"][-2500:])
        res.add_tlc(r)
        for v in vlib.extract_tagged(r["stdout"], tags=("VERDICT",)):
            nver += 1
            rid, app, fails = v[1], vlib.setlist(v[2]), vlib.setlist(v[3])
            res.traces += 1
            res.nontrivial.add(rid)
            for c in app:
                res.clause("History." + c, 1, 1 if c in fails else 0)
            for c in fails:
                res.violation("History." + c, byid[rid])
            ops = byid[rid]["ops"]
            if any(o[0] == "lb" for o in ops):
                res.count_class("histories_with_queued_lower_bound")
            if any(o[0] == "fix" for o in ops):
                res.count_class("histories_with_queued_fix")
            if sum(1 for o in ops if o[0] == "obj") >= 2:
                res.count_class("histories_replacing_objective")
            if any(o[0] == "get" for o in ops):
                res.count_class("histories_reading_values")
    if nver != len(hrecs):
        raise vlib.Machinery(f"Trace_Wrapper: {nver} verdicts for {len(hrecs)} histories")
    # gadgets -> Trace_Gadget
    verd = vlib.validate_records("Trace_Gadget", "Trace.cfg", grecs, PROP, res, nshards=min(16, len(grecs)))
    for rid, (app, fails) in verd.items():
        res.traces += 1
        for c in app:
            res.clause("Gadget." + c, 1, 1 if c in fails else 0)
        for c in fails:
            res.violation("Gadget." + c, byid[rid])
        res.count_class("gadget_" + byid[rid]["gadget"])
    res.evaluations = len(recs)
    res.samples = [{"ops": hrecs[0]["ops"], "obs_last": hrecs[0]["obs"][-1]},
                   {k: grecs[0][k] for k in ("gadget", "ub", "probes")}]
    res.rule = ("(a) MC_Gadgets: every grid point for ub<=12; (b) emitted rows of the real helpers for ub in 0..7,12 (enumerated "
                "exactly for small ub, min/max probes of every admissible fixing otherwise), piecewise range lists; (c) call histories "
                "= TLC -simulate behaviours of Wrapper.tla (depth 9, 3 variables) replayed on the real wrapper, backend state read "
                "back after every call and validated by Trace_Wrapper.tla; distinct histories counted")
    return res.finish(known, require_classes=["histories_with_queued_lower_bound", "histories_with_queued_fix",
                                              "histories_replacing_objective", "gadget_binary", "gadget_integer", "gadget_piecewise"])


def replay(path, seed):
    import json
    d = json.load(open(path))
    print(json.dumps(d["record"])[:3000])
    return 1
