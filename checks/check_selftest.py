"""./check SELFTEST - demonstrates that the binding bites: genuine records produced by the real code are corrupted in ONE
field (or the observation is mis-stated) and the unchanged trace specifications must reject them.  Not a property check;
result in evidence/SELFTEST.json.  Exit 0 iff every corruption is rejected and every pristine record is accepted."""
import copy
import json
import os
import random
import shutil
import vlib
import compose as C
import pipeline as P


def expect(res, name, rejected, detail=""):
    res.clause("corruption_rejected:" + name, 1, 0 if rejected else 1)
    if not rejected:
        res.violation("CorruptionAccepted", {"id": name, "detail": detail})


def run(tier, seed):
    res = vlib.Result("SELFTEST", tier, seed)
    rng = random.Random(seed)
    dag = vlib.universe("dag", 4, k=3, w=3, cap=12)
    cyc4 = vlib.universe("cyc", 4, maxe=6, k=2, w=2, l=1, cap=4)
    # --- model records (C01, C02, C03, C09) ---------------------------------------------------------------------
    insts = []
    for u in C.spread([x for x in dag if len(x["proutes"]) >= 2 and len(x["edges"]) >= 4], 6):
        r = C.base(u, "MinFlowDecomp"); r["wt"] = "int"; r["expect_solved"] = True; insts.append(r)
    for u in C.spread([x for x in cyc4 if len(x["edges"]) >= 4], 4):
        r = C.base(u, "MinPathCoverCycles"); r.pop("ew", None); r["expect_solved"] = True; insts.append(r)
    C.with_ids(insts)
    recs = P.drive(insts)
    good = [r for r in recs if r["solved"] and r["routes"]]
    pristine = vlib.Result("SELFTEST", tier, seed)
    P.validate(good, "SELFTEST", pristine, clause_prop="ALL")
    expect(res, "pristine_records_accepted", not pristine.violations, str(pristine.violations[:1]))
    corrupted = []
    for r in good:
        a = copy.deepcopy(r); a["routes"][0][0] = "zz"; a["_c"] = "route_node_replaced"; corrupted.append(a)
        if r["cls"] == "MinFlowDecomp":
            b = copy.deepcopy(r); b["weights"][0] += 10000; b["_c"] = "weight_plus_one"; corrupted.append(b)
            c = copy.deepcopy(r); c["routes"][0] = c["routes"][0][:-1]; c["_c"] = "route_truncated"; corrupted.append(c)
        else:
            d = copy.deepcopy(r); d["routes"] = d["routes"][1:]; d["_c"] = "route_dropped"; corrupted.append(d)
    for i, a in enumerate(corrupted):
        a["id"] = 1000 + i
    tmp = vlib.Result("SELFTEST", tier, seed)
    verd = vlib.validate_records("Trace_Models", "Trace.cfg", corrupted, "ALL", tmp)
    for a in corrupted:
        fails = verd[a["id"]][1]
        if a["_c"] == "route_dropped":
            # dropping a walk of a MINIMUM cover must uncover something
            expect(res, f"{a['_c']}#{a['id']}", "Covers" in fails or len(a["routes"]) == 0, str(fails))
        else:
            expect(res, f"{a['_c']}#{a['id']}", len(fails) > 0, str(fails))
    res.add_tlc({"distinct": len(corrupted), "states": len(corrupted)})
    # mis-stated observation: pretend the library returned one path more than it did -> the Peel adversary must find
    # the real decomposition as a witness
    adv = []
    for r in good:
        if r["cls"] == "MinFlowDecomp":
            a = dict(r); a["bound"] = len(r["routes"]); a["id"] = 2000 + r["id"]; adv.append(a)
    wit = P.adversary("Adv_Peel", adv, res)
    for a in adv:
        expect(res, f"claimed_one_path_too_many#{a['id']}", a["id"] in wit)
    # --- safety (C06): duplicate a slot -> the same sequence twice is compatible with itself ----------------------
    minst = []
    for u in C.spread([x for x in cyc4 if len(x["edges"]) >= 5], 8):
        r = C.base(u, "kFlowDecompCycles"); r["wt"] = "int"; r["k"] = 2
        r["opt"] = {"optimize_with_safe_sequences": True}; r["ops"] = ["safety"]; minst.append(r)
    C.with_ids(minst, start=3000)
    mrecs = P.drive(minst)
    srecs = []
    for r in mrecs:
        slots = r.get("walks_to_fix") or []
        if r["ctor_exc"] != "none" or not slots:
            continue
        base = {"id": r["id"], "nodes": r["nodes"], "edges": r["edges"], "starts": [], "ends": [], "aug_edges": r["aug_edges"],
                "items": [[e] for e in r["trusted"]], "seqs": [], "slots": slots[:2], "zero": [], "one": []}
        dup = copy.deepcopy(base); dup["id"] += 100; dup["slots"] = [slots[0], slots[0]]; dup["_c"] = "slot_duplicated"
        unsafe = copy.deepcopy(base); unsafe["id"] += 200
        # a sequence that is not forced: all edges of the graph in listed order (almost never a subsequence of every walk)
        unsafe["seqs"] = [[e for e in r["aug_edges"]][::-1]]; unsafe["slots"] = []; unsafe["_c"] = "reversed_edge_list_as_safe_sequence"
        srecs += [dup, unsafe]
    if srecs:
        tmp = vlib.Result("SELFTEST", tier, seed)
        verd = vlib.validate_records("Trace_Safety", "Trace.cfg", srecs, "SELFTEST", tmp)
        for a in srecs:
            fails = verd[a["id"]][1]
            want = "Incompatible" if a["_c"] == "slot_duplicated" else "Safe"
            expect(res, f"{a['_c']}#{a['id']}", want in fails, str(fails))
    # --- Euler (C14): drop one cycle traversal from a returned walk ----------------------------------------------
    uni = vlib.euler_universe(3, 9, 3, 400)
    einst = [{"id": 5000 + i, "unodes": u["unodes"], "uedges": u["uedges"], "edges": u["edges"], "layers": [m for m in u["mults"] if max(m) >= 2][:2], "eps": 0}
             for i, u in enumerate(uni)]
    einst = [e for e in einst if e["layers"]]
    sc = vlib.scratch_dir()
    src, dst = os.path.join(sc, "i.ndjson"), os.path.join(sc, "o.ndjson")
    vlib.write_ndjson(src, einst)
    vlib.run_harness("drive_euler.py", [src, dst])
    erecs = vlib.read_ndjson(dst)
    shutil.rmtree(sc, ignore_errors=True)
    bad = []
    for r in erecs:
        w = r["walks"][0]
        for j in range(len(w) - 1):
            if w[j] == w[j + 1]:
                a = copy.deepcopy(r); a["walks"][0] = w[:j] + w[j + 1:]; a["id"] += 500; bad.append(a)
                break
    tmp = vlib.Result("SELFTEST", tier, seed)
    verd = vlib.validate_records("Trace_Euler", "Trace.cfg", erecs + bad, "SELFTEST", tmp)
    expect(res, "euler_pristine_accepted", all(not verd[r["id"]][1] for r in erecs))
    for a in bad:
        expect(res, f"self_loop_traversal_dropped#{a['id']}", bool(verd[a["id"]][1]))
    res.evaluations = len(res.clause_counts)
    res.traces = res.evaluations
    res.nontrivial = set(res.clause_counts)
    res.samples = [{"corruptions": sorted({k.split(":")[1].split("#")[0] for k in res.clause_counts})}]
    res.rule = "one-field corruptions of genuine records; each must be rejected by the unchanged trace specification"
    return res.finish([])


def replay(path, seed):
    return 0
