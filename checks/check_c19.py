"""C19 - invalid inputs are rejected with ValueError instead of being solved."""
import os
import random
import shutil
import vlib
import compose as C
import pipeline as P

PROP = "C19"
SCHEMES = {"plain": ["a", "b", "c", "d", "e"], "numeric": ["0", "2", "3", "4", "1"], "hostile": ["s", "o", "u", "r", "c"]}


def cases(res):
    sc = vlib.scratch_dir()
    out = os.path.join(sc, "val.ndjson")
    r = vlib.run_tlc("Gen_Validation", "Gen.cfg", env={"OUT_FILE": out}, timeout=900)
    if not vlib.tlc_ok(r) or not os.path.exists(out):
        raise vlib.Machinery("Gen_Validation failed: " + r["stdout"][-1500:])
    res.add_tlc(r)
    recs = vlib.read_ndjson(out)
    shutil.rmtree(sc, ignore_errors=True)
    return recs


def run(tier, seed):
    res = vlib.Result(PROP, tier, seed)
    rng = random.Random(seed)
    known = vlib.load_known()
    cs = cases(res)
    insts = []
    for c in cs:
        schemes = ["plain"] if len(c["defects"]) == 2 else ["plain", "numeric", "hostile"]
        if tier != "quick":
            schemes = ["plain", "numeric", "hostile"]
        for s in schemes:
            insts.append({"cls": c["cls"], "defects": c["defects"], "names": SCHEMES[s], "scheme": s})
    C.with_ids(insts)
    sc = vlib.scratch_dir()
    src, dst = os.path.join(sc, "i.ndjson"), os.path.join(sc, "o.ndjson")
    vlib.write_ndjson(src, insts)
    vlib.run_harness("drive_validation.py", [src, dst])
    recs = vlib.read_ndjson(dst)
    shutil.rmtree(sc, ignore_errors=True)
    verd = vlib.validate_records("Trace_Validation", "TraceT.cfg", recs, PROP, res)
    byid = {r["id"]: r for r in recs}
    for rid, (app, fails) in verd.items():
        rec = byid[rid]
        res.traces += 1
        res.nontrivial.add(rid)
        for c in app:
            res.clause(c, 1, 1 if c in fails else 0)
        for c in fails:
            res.violation(c, dict(rec, ndefects=len(rec["defects"]), defect=sorted(rec["defects"])[0],
                                  defect2=sorted(rec["defects"])[-1]))
        res.count_class("single_defect_cases" if len(rec["defects"]) == 1 else "double_defect_cases")
    # converse: well-formed inputs are accepted (all 12 classes on TLC universes, three naming schemes)
    dag = vlib.universe("dag", 4, k=3, w=3, cap=12)
    cyc4 = vlib.universe("cyc", 4, maxe=6, k=2, w=2, l=1, cap=4)
    wf = []
    for kind, us, classes in (("dag", C.spread(dag, 40 if tier == "quick" else 300), C.DAG_K + C.DAG_MIN),
                              ("cyc", C.spread(cyc4, 40 if tier == "quick" else 300), C.CYC_K + C.CYC_MIN)):
        for u in us:
            for sch in ("plain", "numeric", "hostile"):
                names = {"plain": ["a", "b", "c", "d"], "numeric": ["0", "2", "3", "1"], "hostile": ["s", "e", "c", "1"]}[sch]
                v = C.rename_scheme(u, names[:len(u["nodes"])])
                for cls in classes:
                    for mode in ("edge", "node"):
                        r = C.base(v, cls, mode)
                        if cls not in C.COVER:
                            r["wt"] = "int"
                        if cls not in C.MINCLS:
                            r["k"] = max(1, len(u["proutes"]))
                        wf.append(r)
    if tier == "quick":
        wf = C.spread(wf, 2500)
    C.with_ids(wf, start=len(insts) + 1)
    wrecs = P.drive(wf)
    P.validate(wrecs, PROP, res, clause_prop="C19")
    res.count_class("well_formed_inputs", len(wrecs))
    res.evaluations = len(recs) + len(wrecs)
    res.samples = [{k: recs[0][k] for k in ("cls", "defects", "names", "ctor_exc", "solve_exc", "solved")}]
    res.exhaustive = True
    res.rule = ("every (class, defect) and every (class, pair of compatible defects) of Validation.tla (33 defect kinds x 12 classes, "
                "TLC-enumerated), single defects under three node-naming schemes; converse on well-formed TLC-universe inputs for all "
                "classes, edge and node mode, three naming schemes")
    return res.finish(known, require_classes=["single_defect_cases", "double_defect_cases", "well_formed_inputs"])


def replay(path, seed):
    import json
    d = json.load(open(path))
    print(json.dumps(d["record"])[:2000])
    return 1
