"""C07 - k-Least-Absolute-Errors returns a true optimum with a consistent objective."""
import random
import vlib
import compose as C
import pipeline as P
import fitcommon as F

PROP = "C07"


def instances(tier, rng):
    quick = tier == "quick"
    dag = vlib.universe("dag", 4, k=3, w=3, cap=12)
    cyc = vlib.universe("cyc", 3, maxe=9, k=2, w=2, l=1, cap=6)
    cyc4 = vlib.universe("cyc", 4, maxe=6, k=2, w=2, l=1, cap=4)
    items = [("kLeastAbsErrors", u) for u in C.spread(dag, 60 if quick else 150)] + \
            [("kLeastAbsErrorsCycles", u) for u in C.spread(cyc, 12 if quick else 72) + C.spread(cyc4, 40 if quick else 150)]
    mdag, mcyc = C.motifs()
    items += [("kLeastAbsErrors", u) for u in mdag] + [("kLeastAbsErrorsCycles", u) for u in C.spread(mcyc, 8 if quick else 30)]
    insts = []
    g = 0
    seen_shapes = set()
    for cls, u0 in items:
        variants_u = [u0, F.perturb(u0, rng), F.wild(u0, rng)]
        if len(u0["nodes"]) >= 5 and str(u0["edges"]) not in seen_shapes:       # (DAG and cyclic motifs alike)
            seen_shapes.add(str(u0["edges"]))
            variants_u += F.bridge_patterns(u0)       # heavy routes over one light element
        for u in variants_u:
            for k in ((1, 2) if quick else (1, 2, 3)):
                feats = [{}]
                extra = [{"mode": "node"}]
                if len(u["edges"]) >= 2:
                    extra.append({"ign": [list(rng.choice(u["edges"]))]})
                e = list(rng.choice(u["edges"]))
                extra.append({"escale": [[e, 1, 2]]})
                extra.append({"escale": [[e, 0, 1]]})
                v = rng.choice(u["nodes"])
                extra.append({"mode": "node", "escale": [[v, 0, 1]]})       # node keys: scale 0 on a node == node ignored
                extra.append({"mode": "node", "escale": [[v, 1, 2]]})
                if len(u["nodes"]) >= 3:
                    extra.append({"mode": "node", "ign": [v]})
                extra.append({"starts": [rng.choice(u["nodes"])]})
                extra.append({"ends": [rng.choice(u["nodes"])]})
                extra.append({"sws": sorted(set(u["pweights"])) + [1]})
                es = C.route_edges(rng.choice(u["proutes"]))
                extra.append({"cons": [es[:2]]})
                for cfg in feats + rng.sample(extra, 2 if quick else 5):
                    g += 1
                    for wt, num, den in (("int", 1, 1), ("float", 1, 1), ("float", 1, 2)) if (not quick or rng.random() < 0.4) else (("int", 1, 1),):
                        r = C.base(u, cls, cfg.get("mode", "edge"))
                        r.update({k2: v for k2, v in cfg.items() if k2 != "mode"})
                        r["k"] = k
                        r["wt"] = wt
                        r["num"], r["den"] = num, den
                        r["grp"] = g
                        r["cmp"] = [num, den]
                        insts.append(r)
    return C.with_ids(insts)


def exact(r):
    if r["sws"]:
        return False            # restricted weight set: a different optimisation problem
    if r["wt"] == "int":
        return True
    # float weights: for fixed routes the problem is an LP; on DAGs with k <= 2 an integral optimum exists
    return (not r["cls"].endswith("Cycles")) and r["k"] <= 2


def run(tier, seed):
    res = vlib.Result(PROP, tier, seed)
    rng = random.Random(seed)
    known = vlib.load_known()
    insts = instances(tier, rng)
    recs = P.drive(insts)
    res.evaluations = len(recs)
    P.validate(recs, PROP, res)
    F.fit_adversary(recs, res, exact)
    vlib.validate_groups([dict(r) for r in recs], PROP, res)
    for r in recs:
        if r["solved"]:
            res.count_class("solved")
            if r["escale"]:
                res.count_class("solved_with_error_scaling")
            if r["mode"] == "node":
                res.count_class("solved_node_mode")
            if r["cls"].endswith("Cycles"):
                res.count_class("solved_cyclic")
            if r["wt"] == "float":
                res.count_class("solved_float")
    res.samples = [P.brief(r) for r in recs[:2] + recs[-1:]]
    res.rule = ("planted and perturbed (non-conserving) integer weights on TLC-enumerated DAGs / cyclic digraphs x k in 1..3 x "
                "{plain, node, ignore, error_scaling, starts, ends, given weights, constraint} x {int, float}; TLC's Fit adversary "
                "searches for k routes+weights with a strictly smaller scaled error; non-trivial = solved runs")
    P.attribute_presolve(res, known)
    return res.finish(known, require_classes=["solved", "solved_with_error_scaling", "solved_node_mode", "solved_cyclic",
                                              "adversary_optimality_runs"])


def replay(path, seed):
    import json
    d = json.load(open(path))
    recs = P.drive([d["record"]])
    res = vlib.Result(PROP, "quick", seed)
    P.validate(recs, PROP, res)
    F.fit_adversary(recs, res, exact)
    print(json.dumps(P.brief(recs[0])))
    return 1 if res.violations else 0
