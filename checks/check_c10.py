"""C10 - constraints, ignored elements and extra start/end nodes behave as documented."""
import random
import vlib
import compose as C
import pipeline as P
import fitcommon as F

PROP = "C10"
COVS = [[1, 1], [3, 4], [1, 2], [1, 3]]


def constraint_lists(u, rng):
    """overlapping, duplicated and non-contiguous constraint lists built from planted routes (so they are satisfiable
    by the planted solution for coverage 1)."""
    out = []
    rs = [C.route_edges(p) for p in u["proutes"] if len(p) >= 2]
    if not rs:
        return out
    es = rng.choice(rs)
    out.append([es[:2]])
    out.append([es])                                        # the whole route
    if len(es) >= 3:
        out.append([[es[0], es[-1]]])                       # non-contiguous
        out.append([es[:2], es[1:3]])                       # overlapping
    out.append([es[:1], es[:1]])                            # duplicated constraint
    if len(rs) >= 2:
        out.append([es[:2], rng.choice(rs)[-2:]])
    return out


def instances(tier, rng):
    quick = tier == "quick"
    dag = vlib.universe("dag", 4, k=3, w=3, cap=12)
    cyc = vlib.universe("cyc", 3, maxe=9, k=2, w=2, l=1, cap=6)
    cyc4 = vlib.universe("cyc", 4, maxe=6, k=2, w=2, l=1, cap=4)
    items = [(u, False) for u in C.spread(dag, 50 if quick else 400)] + \
            [(u, True) for u in C.spread(cyc, 10 if quick else 60) + C.spread(cyc4, 30 if quick else 400)]
    mot = C.motifs()
    items += [(u, False) for u in C.spread(mot[0], 6 if quick else 30)] + [(u, True) for u in C.spread(mot[1], 12 if quick else 30)]
    insts, groups = [], []
    g = 0
    # flows with zero edges: a constraint over a zero-flow edge can only be honoured by an extra (weight 0) route;
    # the greedy shortcut never uses such an edge
    zdag = [u for u in vlib.universe("dag", 4, k=2, w=3, cap=12, zero=True) if 0 in u["ew"]]
    for u in C.spread(zdag, 50 if quick else 400):
        zero_edges = [list(e) for e, w in zip(u["edges"], u["ew"]) if w == 0]
        for cls in ("MinFlowDecomp", "kFlowDecomp"):
            for cons in ([[rng.choice(zero_edges)]], [[rng.choice(zero_edges)], C.route_edges(u["proutes"][0])[:1]]):
                r = C.base(u, cls)
                r["wt"] = "int"
                r["cons"] = cons
                r["zero_flow"] = True
                if cls == "kFlowDecomp":
                    r["k"] = len(u["proutes"]) + rng.choice([0, 1])
                insts.append(r)
    for u, cyc_ in items:
        sfx = "Cycles" if cyc_ else ""
        classes = ["MinFlowDecomp" + sfx, "MinPathCover" + sfx, "kLeastAbsErrors" + sfx, "kMinPathError" + sfx,
                   "kFlowDecomp" + sfx, "kPathCover" + sfx]
        for cls in (classes if not quick else rng.sample(classes, 3)):
            cover = cls in C.COVER
            feats = []
            cl = constraint_lists(u, rng)
            for cons in (cl if not quick else rng.sample(cl, min(2, len(cl)))):
                cov = rng.choice(COVS)
                feats.append({"cons": cons, "cov": cov})
            if not cyc_:
                # length coverage (DAG models only): lengths on some edges (absent = 1), fraction of the listed LENGTH
                for cons in rng.sample(cl, min(2 if quick else len(cl), len(cl))):
                    feats.append({"cons": cons, "covlen": rng.choice([[1, 2], [3, 4], [7, 10], [17, 20], [1, 1]]),
                                  "elen": [rng.choice([vlib.NONE, 1, 1, 2, 3, 5, 8]) for _ in u["edges"]]})
                    # node mode, edge-form constraint, fraction of its expanded items (node, link, node, ...)
                    feats.append({"mode": "node", "cons": cons, "cov": rng.choice(COVS)})
                    if True:
                        # node mode: lengths on the nodes (absent = 1); link edges count 0 unless the edge has a length itself
                        feats.append({"mode": "node", "cons": cons, "covlen": rng.choice([[1, 2], [3, 4], [17, 20], [1, 1]]),
                                      "nlen": [rng.choice([vlib.NONE, 1, 1, 2, 3, 8]) for _ in u["nodes"]],
                                      "elen": rng.choice([[], [rng.choice([vlib.NONE, vlib.NONE, 1, 2]) for _ in u["edges"]]])})
                        if cls != "kFlowDecomp" and rng.random() < 0.6:
                            feats[-1][rng.choice(["starts", "ends"])] = [rng.choice(u["nodes"])]
            if len(u["edges"]) >= 2:
                feats.append({"ign": [list(rng.choice(u["edges"]))]})
            if len(u["edges"]) >= 3 and u["proutes"]:
                # larger ignore sets: everything off one planted route (the ignored part then carries flow values and
                # cycle traversals the rest does not need), or a random proper subset
                E = [list(e) for e in u["edges"]]
                keep = {tuple(e) for e in C.route_edges(rng.choice(u["proutes"]))}
                off = [e for e in E if tuple(e) not in keep]
                feats.append({"ign": off if (off and keep and rng.random() < 0.6) else rng.sample(E, rng.randint(2, len(E) - 1))})
            if cls not in C.NO_STARTS_EDGE:
                feats.append({"starts": [rng.choice(u["nodes"])]})
                feats.append({"ends": [rng.choice(u["nodes"])]})
                feats.append({"starts": [rng.choice(u["nodes"])], "ends": [rng.choice(u["nodes"])]})
            for cfg in feats:
                r = C.base(u, cls, cfg.get("mode", "edge"))
                r.update(cfg)
                if not cover:
                    r["wt"] = "int"
                if cls not in C.MINCLS:
                    kp = max(1, len(u["proutes"]))
                    r["k"] = kp + (1 if ("cons" in cfg and cfg.get("cov") == [1, 1] and not cls.startswith("kFlowDecomp")) else 0)
                if cls in C.MINCLS:
                    r["expect_solved"] = True
                insts.append(r)
            # equivalences: error scale 0 == ignored ; starts/ends = [] == omitted
            if cls.startswith("kLeastAbs") or cls.startswith("kMinPathError"):
                e = list(rng.choice(u["edges"]))
                g += 1
                for var in ({"ign": [e]}, {"escale": [[e, 0, 1]]}):
                    r = C.base(u, cls)
                    r.update(var)
                    r["wt"] = "int"
                    r["k"] = max(1, len(u["proutes"]))
                    r["grp"] = g
                    groups.append(r)
                if len(u["nodes"]) >= 3:
                    v = rng.choice(u["nodes"])
                    g += 1
                    for var in ({"ign": [v]}, {"escale": [[v, 0, 1]]}):       # the same on a node, node mode
                        r = C.base(u, cls, "node")
                        r.update(var)
                        r["wt"] = "int"
                        r["k"] = max(1, len(u["proutes"]))
                        r["grp"] = g
                        groups.append(r)
            if cls not in C.NO_STARTS_EDGE:
                g += 1
                for var in ({}, {"starts": [], "ends": []}):
                    r = C.base(u, cls)
                    r.update(var)
                    if not cover:
                        r["wt"] = "int"
                    if cls not in C.MINCLS:
                        r["k"] = max(1, len(u["proutes"]))
                    r["grp"] = g
                    groups.append(r)
    # ignoring everything off one planted walk of a cyclic motif: the remaining walk may have to traverse IGNORED cycle
    # edges more often than their (irrelevant) flow values suggest
    for u in mot[1]:
        E = [list(e) for e in u["edges"]]
        for pr in u["proutes"]:
            keep = {tuple(e) for e in C.route_edges(pr)}
            off = [e for e in E if tuple(e) not in keep]
            part = [e for e in E if tuple(e) in keep and e[0] != e[1]]
            for ign in ([off] if off else []) + ([rng.sample(part, min(2, len(part)))] if len(part) >= 3 else []):
                for cls in ("MinFlowDecompCycles", "kFlowDecompCycles"):
                    r = C.base(u, cls)
                    r["wt"] = "int"
                    r["ign"] = ign
                    if cls == "kFlowDecompCycles":
                        r["k"] = max(1, len(u["proutes"]))
                    else:
                        r["expect_solved"] = True
                    insts.append(r)
    # constraints that CROSS the planted routes of a DAG motif (first part of one route, last part of another): honouring
    # them fully costs an extra path, honouring the requested fraction may not - fractions whose product with the length
    # is not integral, edge and length coverage, edge and node mode (with an additional start/end)
    for u in mot[0]:
        cross = C.crossing_routes(u)
        for p in (cross if not quick else rng.sample(cross, min(2, len(cross)))):
            es = C.route_edges(p)
            for cons in ([es], [[es[0], es[-1]]]):
                for cls in ("MinFlowDecomp", "kFlowDecomp", "MinPathCover", "kMinPathError", "kLeastAbsErrors"):
                    for var in ({"cov": rng.choice([[3, 4], [2, 3], [1, 2]])},
                                {"covlen": rng.choice([[17, 20], [3, 4], [7, 10]]),
                                 "elen": [rng.choice([1, 1, 2, 8]) for _ in u["edges"]]},
                                {"mode": "node", "covlen": rng.choice([[17, 20], [3, 4], [7, 10]]),
                                 "nlen": [rng.choice([1, 1, 2, 8]) for _ in u["nodes"]]}):
                        r = C.base(u, cls, var.get("mode", "edge"))
                        r.update(var)
                        if cls == "MinPathCover":
                            r.pop("ew", None), r.pop("nw", None)
                        else:
                            r["wt"] = "int"
                        r["cons"] = cons
                        if cls in ("kFlowDecomp", "kMinPathError", "kLeastAbsErrors"):
                            r["k"] = len(u["proutes"])
                        else:
                            r["expect_solved"] = True
                            if var.get("mode") == "node" and rng.random() < 0.7:
                                r[rng.choice(["starts", "ends"])] = [rng.choice(u["nodes"])]
                        insts.append(r)
    # node-weighted flow decomposition where part of the flow STARTS (ends) at an inner node: the planted flow plus a weighted
    # suffix (prefix) of a planted route, with that node given as additional start (end) - the only way to decompose it
    for u, cyc_ in C.spread([it for it in items if len(it[0]["nodes"]) >= 3], 40 if quick else 300):
        cls = "MinFlowDecompCycles" if cyc_ else "MinFlowDecomp"
        p = rng.choice(u["proutes"])
        if len(p) < 3:
            continue
        i = rng.randrange(1, len(p) - 1)
        w = rng.choice([1, 2])
        for key, part in (("starts", p[i:]), ("ends", p[:i + 1])):
            r = C.base(u, cls, "node")
            r["wt"] = "int"
            r["nw"] = [x + w * part.count(v) for v, x in zip(u["nodes"], u["nw"])]
            r.pop("ew", None)
            r[key] = [p[i]]
            r["expect_solved"] = True
            r["proutes"] = list(u["proutes"]) + [part]
            r["pweights"] = list(u["pweights"]) + [w]
            insts.append(r)
    # an IGNORED edge shared by two heavy cycles, on the way of one light walk: that walk has to cross the ignored edge once per
    # unit of cycle flow (2F + 1 times) - far more often than any flow value of the instance
    for F in ((4, 10) if quick else (3, 4, 7, 10, 12)):
        E = [["s", "a"], ["a", "b"], ["b", "t"], ["b", "c1"], ["c1", "a"], ["b", "c2"], ["c2", "a"]]
        walk = ["s", "a", "b"] + ["c1", "a", "b"] * F + ["c2", "a", "b"] * F + ["t"]
        for cls in ("kFlowDecompCycles", "MinFlowDecompCycles"):
            r = {"cls": cls, "mode": "edge", "nodes": ["s", "a", "b", "t", "c1", "c2"], "edges": E, "ew": [1, 2 * F + 1, 1, F, F, F, F],
                 "wt": "int", "ign": [["a", "b"]], "expect_solved": True, "proutes": [walk], "pweights": [1]}
            if cls == "kFlowDecompCycles":
                r["k"] = 1
            insts.append(r)
    # cyclic error models: a subset constraint that lists a ZERO-flow edge next to positive ones, at a fraction that is met
    # without it (2 edges at 1/2, 4 at 3/4): using the zero edge only costs error, so it must stay optional
    zc = [u for u in vlib.universe("cyc", 3, maxe=9, k=2, w=2, l=1, cap=6, zero=True) if 0 in u["ew"]]
    for u in (C.spread(zc, 16) if quick else zc):
        zero = [list(e) for e, w in zip(u["edges"], u["ew"]) if w == 0]
        pos = [list(e) for e, w in zip(u["edges"], u["ew"]) if w > 0]
        for z in zero[:2]:
            lists = [([pos[0], z], [1, 2])]
            if len(pos) >= 3:
                lists.append((pos[:3] + [z], [3, 4]))
            for cons, cov in lists:
                for cls in ("kMinPathErrorCycles", "kLeastAbsErrorsCycles"):
                    r = C.base(u, cls)
                    r["wt"] = "int"
                    r["k"] = max(1, len(u["proutes"]))
                    r["cons"] = [cons]
                    r["cov"] = cov
                    insts.append(r)
    C.with_ids(insts)
    C.with_ids(groups, start=len(insts) + 1)
    return insts, groups


def run(tier, seed):
    res = vlib.Result(PROP, tier, seed)
    rng = random.Random(seed)
    known = vlib.load_known()
    insts, groups = instances(tier, rng)
    recs = P.drive(insts + groups)
    main = recs[:len(insts)]
    grecs = recs[len(insts):]
    res.evaluations = len(recs)
    P.validate(main, PROP, res)
    # (minimum-count optimality is claimed for positive flows only: the documented lower bound "every edge must be covered"
    #  assumes non-zero flow; zero-flow instances are judged on validity / constraints / k-feasibility)
    fd = [r for r in main if r["cls"] in ("MinFlowDecomp", "MinFlowDecompCycles") and not r.get("zero_flow")]
    cv = [r for r in main if r["cls"] in ("MinPathCover", "MinPathCoverCycles")]
    ft = [r for r in main if r["cls"].startswith("kLeastAbs") or r["cls"].startswith("kMinPathError")]
    P.min_count_adversary(fd, res, "Adv_Peel", lambda r: True, exists_bound=lambda r: len(r["proutes"]) + len(r["cons"]))
    # k-models with constraints: solved exactly when a decomposition into <= k routes honouring the constraints exists
    kfd = []
    for r in main:
        if r["cls"] in ("kFlowDecomp", "kFlowDecompCycles") and (r["cons"] or r["ign"]) and r["ctor_exc"] == "none" and not r.get("timeout"):
            a = dict(r)
            a["bound"] = r["k"]
            a["expect"] = "reach" if r["solved"] else "unreach"
            kfd.append(a)
    P.reach_adversary("Adv_Peel", kfd, res, "kModelSolvedIffConstrainedDecompositionExists")
    P.min_count_adversary(cv, res, "Adv_Cover", lambda r: True)
    F.fit_adversary(ft, res, lambda r: r["wt"] == "int")
    vlib.validate_groups([dict(r) for r in grecs], PROP, res)
    for r in main:
        if r["solved"] and r["cons"]:
            res.count_class("solved_with_constraints")
            if r["cov"] != [1, 1]:
                res.count_class("solved_with_partial_coverage")
            if r["covlen"][0] > 0:
                res.count_class("solved_with_length_coverage")
        if r["solved"] and r["ign"]:
            res.count_class("solved_with_ignored")
        if r["solved"] and (r["starts"] or r["ends"]):
            res.count_class("solved_with_starts_ends")
    res.count_class("equivalence_groups", len({r["grp"] for r in grecs}))
    res.samples = [P.brief(r) for r in main[:2] + grecs[:1]]
    res.rule = ("TLC universes x 12 classes x {constraint lists (contiguous, non-contiguous, overlapping, duplicated) with coverage in "
                "{1,3/4,1/2,1/3} or LENGTH coverage in {1/2,3/4,7/10,17/20,1} over random edge lengths (DAG models), ignored edge, additional start, end, both}; ConstraintsHonoured by trace validation; optimum over "
                "exactly the admissible solutions by the Peel / Cover / Fit adversaries which take constraints, ignore sets and "
                "starts/ends natively; equivalences (scale 0 == ignored, [] == omitted) by Trace_Groups")
    P.attribute_presolve(res, known)
    return res.finish(known, require_classes=["solved_with_constraints", "solved_with_partial_coverage", "solved_with_length_coverage", "solved_with_ignored",
                                              "solved_with_starts_ends", "equivalence_groups"])


def replay(path, seed):
    import json
    d = json.load(open(path))
    recs = P.drive([d["record"]])
    res = vlib.Result(PROP, "quick", seed)
    P.validate(recs, PROP, res)
    print(json.dumps(P.brief(recs[0])))
    return 1 if res.violations else 0
