"""C11 - node-weighted solving equals solving the explicitly node-expanded instance."""
import os
import random
import shutil
import vlib
import compose as C
import pipeline as P

PROP = "C11"

NODE_CLASSES_DAG = ["MinFlowDecomp", "kFlowDecomp", "kLeastAbsErrors", "kMinPathError", "kPathCover", "MinPathCover"]
NODE_CLASSES_CYC = ["MinFlowDecompCycles", "kFlowDecompCycles", "kLeastAbsErrorsCycles", "kMinPathErrorCycles",
                    "kPathCoverCycles", "MinPathCoverCycles"]


def expand_with_tlc(node_insts, res):
    """The explicit expansion is computed by the specification (Gen_Expand.tla / Graphs!Expand)."""
    sc = vlib.scratch_dir()
    src, dst = os.path.join(sc, "in.ndjson"), os.path.join(sc, "out.ndjson")
    vlib.write_ndjson(src, [vlib.normalize_model_rec(dict(r, **{"proutes": [], "pweights": []})) for r in node_insts])
    r = vlib.run_tlc("Gen_Expand", "Gen.cfg", env={"IN_FILE": src, "OUT_FILE": dst}, timeout=1200)
    if not vlib.tlc_ok(r) or not os.path.exists(dst):
        raise vlib.Machinery("Gen_Expand failed: " + r["stdout"][-2000:])
    res.add_tlc(r)
    out = {x["id"]: x for x in vlib.read_ndjson(dst)}
    shutil.rmtree(sc, ignore_errors=True)
    return out


def instances(tier, rng):
    quick = tier == "quick"
    dag = vlib.universe("dag", 4, k=3, w=3, cap=12)
    cyc = vlib.universe("cyc", 3, maxe=9, k=2, w=2, l=1, cap=6)
    cyc4 = vlib.universe("cyc", 4, maxe=6, k=2, w=2, l=1, cap=4)
    items = [(u, NODE_CLASSES_DAG) for u in C.spread(dag, 40 if quick else 300)] + \
            [(u, NODE_CLASSES_CYC) for u in C.spread(cyc, 10 if quick else 60) + C.spread(cyc4, 25 if quick else 300)]
    single = {"nodes": ["a"], "edges": [], "ew": [], "nw": [3], "proutes": [["a"]], "pweights": [3]}
    out = []
    DOTTED = ["1", "1.5", "x.0", "x.0.1"]
    for j, (u, classes) in enumerate(items):
        if j % 4 == 1:
            u = C.rename_scheme(u, DOTTED[:len(u["nodes"])])      # dotted node names must survive expansion and condensation
        for cls in classes:
            feats = [{}]
            extra = []
            if len(u["nodes"]) >= 3:
                extra.append({"ign": [rng.choice(u["nodes"])]})
                extra.append({"drop": rng.randrange(len(u["nodes"]))})
            if cls not in ("MinFlowDecomp", "kFlowDecomp", "MinFlowDecompCycles"):
                extra.append({"starts": [rng.choice(u["nodes"])]})
                extra.append({"ends": [rng.choice(u["nodes"])]})
            p = rng.choice(u["proutes"])
            if len(p) >= 2:
                extra.append({"cons": [p[:2]], "cons_kind": "node"})
            if cls.startswith("kLeastAbs") or cls.startswith("kMinPathError"):
                extra.append({"escale": [[rng.choice(u["nodes"]), 1, 2]]})
                extra.append({"escale": [[rng.choice(u["nodes"]), 0, 1]]})
            for cfg in feats + rng.sample(extra, min(len(extra), 2 if quick else len(extra))):
                r = C.base(u, cls, "node")
                for k2, v in cfg.items():
                    if k2 == "drop":
                        r["nw"][v] = vlib.NONE
                    else:
                        r[k2] = v
                if cls not in C.COVER:
                    r["wt"] = "int"
                if cls not in C.MINCLS:
                    r["k"] = max(1, len(u["proutes"]))
                out.append(r)
    # (MinFlowDecomp / MinFlowDecompCycles accept additional starts / ends in node mode only - there is no edge-mode twin to compare
    # with; node-weighted flows that start / end at an inner node are C10's family)
    for cls in NODE_CLASSES_DAG + NODE_CLASSES_CYC:      # single-node graphs
        r = C.base(single, cls, "node")
        if cls not in C.COVER:
            r["wt"] = "int"
        if cls not in C.MINCLS:
            r["k"] = 1
        out.append(r)
    return out


def run(tier, seed):
    res = vlib.Result(PROP, tier, seed)
    rng = random.Random(seed)
    known = vlib.load_known()
    node_insts = instances(tier, rng)
    for i, r in enumerate(node_insts):
        r["id"] = 2 * i + 2
        r["grp"] = i + 1
    exp = expand_with_tlc(node_insts, res)
    edge_insts = []
    for r in node_insts:
        x = exp[r["id"]]
        e = {k: r[k] for k in ("cls", "grp") if k in r}
        for k in ("wt", "k", "opt", "cov"):
            if k in r:
                e[k] = r[k]
        e.update({"id": r["id"] + 1, "mode": "edge", "nodes": x["nodes"], "edges": [list(t) for t in x["edges"]], "ew": x["ew"],
                  "ign": [list(t) for t in x["ign"]], "starts": x["starts"], "ends": x["ends"],
                  "cons": [[list(t) for t in c] for c in x["cons"]],
                  "escale": [[list(t[0]), t[1], t[2]] for t in x["escale"]], "is_expansion": True})
        if r["cls"] in C.COVER:
            e.pop("ew")
        for k in ("starts", "ends", "cons", "escale"):
            if not e[k]:
                e.pop(k)
        edge_insts.append(e)
    recs = P.drive(node_insts + edge_insts)
    res.evaluations = len(recs)
    node_recs = [r for r in recs if not r.get("is_expansion")]
    # names: node-mode results are expressed in the caller's node names (C01 clauses on the node graph)
    P.validate(node_recs, PROP, res, clause_prop="C11")
    vlib.validate_groups([dict(r) for r in recs], PROP, res)
    # MinErrorFlow accepts flow_attr_origin='node' too: node-weighted (non-conserving) instances, with a zero-scaled / half-scaled /
    # ignored / attribute-less node, paired with the expansion in the same way
    mef = []
    dag = vlib.universe("dag", 4, k=3, w=3, cap=12)
    cyc4 = vlib.universe("cyc", 4, maxe=6, k=2, w=2, l=1, cap=4)
    for u in C.spread(dag, 12 if tier == "quick" else 80) + C.spread(cyc4, 8 if tier == "quick" else 60):
        for _ in range(2):
            r = C.base(u, "MinErrorFlow", "node")
            r["wt"] = "int"
            v = rng.choice(u["nodes"])
            r["nw"] = list(r["nw"])
            r["nw"][u["nodes"].index(v)] += rng.choice([2, 3, 5])
            feat = rng.choice([{}, {"escale": [[v, 0, 1]]}, {"escale": [[v, 0, 1]]}, {"escale": [[v, 1, 2]]}, {"ign": [v]}, {"drop": v}])
            if "drop" in feat:
                r["nw"][u["nodes"].index(v)] = vlib.NONE
            else:
                r.update(feat)
            mef.append(r)
    for i, r in enumerate(mef):
        r["id"] = 2 * 10 ** 6 + 2 * i
        r["grp"] = 2 * 10 ** 6 + i
    mexp = expand_with_tlc(mef, res)
    twins = []
    for r in mef:
        x = mexp[r["id"]]
        tw = {"cls": "MinErrorFlow", "grp": r["grp"], "id": r["id"] + 1, "mode": "edge", "wt": "int", "nodes": x["nodes"],
              "edges": [list(t) for t in x["edges"]], "ew": x["ew"], "ign": [list(t) for t in x["ign"]], "is_expansion": True}
        if x.get("escale"):
            tw["escale"] = [[list(t[0]), t[1], t[2]] for t in x["escale"]]
        twins.append(tw)
    mrecs = P.drive(mef + twins)
    for r in mrecs:
        # r["obj"] is what get_objective_value() answered (for this class: the reported error); the objective_value entry of the
        # solution is compared by C16
        r["cmp"] = [1, 1]
        if r["solved"] and not r.get("is_expansion"):
            res.count_class("solved_MinErrorFlow_node_mode")
            if any(t[1] == 0 for t in r.get("escale", [])):
                res.count_class("solved_MinErrorFlow_zero_scaled_node")
    vlib.validate_groups([dict(r) for r in mrecs], PROP, res)
    res.evaluations += len(mrecs)
    # the expansion class itself
    sub = []
    sid = 10 ** 6
    for r in node_insts[:: (3 if tier == "quick" else 1)]:
        paths = [p for p in r.get("proutes", []) if p][:2]
        sub.append({"id": sid, "nodes": r["nodes"], "edges": r["edges"], "nw": r["nw"], "paths": paths,
                    "nw2": [rng.choice([0, 0, 1, 4, 7]) for _ in r["nodes"]],
                    "qstarts": r["nodes"][:1], "qends": r["nodes"][-1:]})
        sid += 1
    sc = vlib.scratch_dir()
    src, dst = os.path.join(sc, "i.ndjson"), os.path.join(sc, "o.ndjson")
    vlib.write_ndjson(src, sub)
    vlib.run_harness("drive_nodeexp.py", [src, dst])
    srecs = vlib.read_ndjson(dst)
    shutil.rmtree(sc, ignore_errors=True)
    verd = vlib.validate_records("Trace_NodeExp", "Trace.cfg", srecs, PROP, res)
    sby = {r["id"]: r for r in srecs}
    for rid, (app, fails) in verd.items():
        res.traces += 1
        for c in app:
            res.clause("NodeExp." + c, 1, 1 if c in fails else 0)
        for c in fails:
            res.violation("NodeExp." + c, sby[rid])
    for r in node_recs:
        if r["solved"]:
            res.count_class("solved_node_mode")
            res.count_class("solved_" + r["cls"])
        if vlib.NONE in r["nw"]:
            res.count_class("node_without_attribute")
        if len(r["nodes"]) == 1:
            res.count_class("single_node_graph")
    res.samples = [P.brief(r) for r in recs[:1] + recs[len(node_insts):len(node_insts) + 1]]
    res.rule = ("node-weighted instances (TLC universes, node values = planted visits) x 12 classes x {ignore node, node without "
                "attribute, starts, ends, node constraint, error scaling}; each paired with the explicit expansion computed by "
                "Gen_Expand.tla; Trace_Groups requires equal solved status and objective; NodeExpandedDiGraph validated against "
                "Graphs!Expand by Trace_NodeExp")
    return res.finish(known, require_classes=["solved_node_mode", "node_without_attribute", "single_node_graph", "solved_MinErrorFlow_node_mode",
                                              "solved_MinErrorFlow_zero_scaled_node"])


def replay(path, seed):
    import json
    d = json.load(open(path))
    print(json.dumps(d["record"])[:2000])
    return 1
