"""C20 - graph files are parsed faithfully and malformed files are rejected."""
import os
import random
import shutil
import vlib
import compose as C
import pipeline as P

PROP = "C20"


def run(tier, seed):
    res = vlib.Result(PROP, tier, seed)
    known = vlib.load_known()
    sc = vlib.scratch_dir()
    out = os.path.join(sc, "gf.ndjson")
    r = vlib.run_tlc("Gen_GraphFile", "Gen.cfg", env={"GEN_CAP": "600" if tier == "quick" else "20000", "OUT_FILE": out}, timeout=1800)
    if not vlib.tlc_ok(r) or not os.path.exists(out):
        raise vlib.Machinery("Gen_GraphFile failed: " + r["stdout"][-1500:])
    res.add_tlc(r)
    files = vlib.read_ndjson(out)
    C.with_ids(files)
    src, dst = os.path.join(sc, "i.ndjson"), os.path.join(sc, "o.ndjson")
    vlib.write_ndjson(src, files)
    vlib.run_harness("drive_graphfile.py", [src, dst], env={"VERIF_SCRATCH": sc})
    recs = vlib.read_ndjson(dst)
    shutil.rmtree(sc, ignore_errors=True)
    verd = vlib.validate_records("Trace_GraphFile", "TraceT.cfg", recs, PROP, res)
    byid = {x["id"]: x for x in recs}
    wadv = []
    nid = 10 ** 6
    for rid, (app, fails) in verd.items():
        rec = byid[rid]
        res.traces += 1
        res.nontrivial.add(rid)
        for c in app:
            res.clause(c, 1, 1 if c in fails else 0)
        for c in fails:
            res.violation(c, rec)
        res.count_class("malformed_files" if rec["error"] else "well_formed_files")
        if len(rec["graphs"]) >= 2:
            res.count_class("multi_block_files")
        if not rec["error"] and rec["exc"] == "none":
            # stored width = minimum number of s-t walks covering all edges (Cover adversary: two reachability questions)
            for g in rec["obs"]:
                if g["w"] == vlib.NONE or g["m"] == 0:
                    continue
                base = {"cls": "kPathCoverCycles", "nodes": g["nodes"], "edges": [[e[0], e[1]] for e in g["edges"]], "mode": "edge",
                        "ign": [], "cons": [], "cons_kind": "edge", "cov": [1, 1], "starts": [], "ends": [], "escale": [], "ew": [],
                        "nw": [], "width": g["w"], "file_id": rid}
                if (rid % 7) == 0:      # the graphs repeat across files: sample
                    if g["w"] >= 1:
                        wadv.append(dict(base, id=nid, bound=g["w"] - 1, expect="unreach")); nid += 1
                    wadv.append(dict(base, id=nid, bound=g["w"], expect="reach")); nid += 1
    P.reach_adversary("Adv_Cover", wadv, res, "StoredWidthIsMinCover")
    res.evaluations = len(recs)
    res.samples = [{"lines": recs[1]["lines"], "error": recs[1]["error"], "exc": recs[1]["exc"], "obs": recs[1]["obs"]}]
    res.exhaustive = tier != "quick"
    res.rule = ("every block description of GraphFile.tla (4 graph shapes x 1-2 headers x 5 constraint-line variants x blank line x "
                "extra comment x 6 corruption kinds) as a one-block file, and two-block concatenations (clean block + any block; "
                "capped by even spreading in the quick tier); expected meaning computed by the specification")
    return res.finish(known, require_classes=["malformed_files", "well_formed_files", "multi_block_files"])


def replay(path, seed):
    import json
    d = json.load(open(path))
    print(json.dumps(d["record"])[:2000])
    return 1
