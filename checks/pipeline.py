"""Generic pipeline: instances -> real code (harness) -> records -> TLC trace validation."""
import os
import shutil
import vlib


def drive(insts, limit=90):
    sc = vlib.scratch_dir()
    src = os.path.join(sc, "inst.ndjson")
    dst = os.path.join(sc, "obs.ndjson")
    vlib.write_ndjson(src, insts)
    vlib.run_harness("drive_models.py", [src, dst, limit])
    recs = [vlib.normalize_model_rec(r) for r in vlib.read_ndjson(dst)]
    shutil.rmtree(sc, ignore_errors=True)
    if len(recs) != len(insts):
        raise vlib.Machinery("driver lost records")
    return recs


def validate(recs, prop, res, clause_prop=None):
    """TLC decides every applicable clause of ClausesOf(clause_prop) on every record."""
    verdicts = vlib.validate_records("Trace_Models", "Trace.cfg", recs, clause_prop or prop, res)
    byid = {r["id"]: r for r in recs}
    for rid, (app, fails) in verdicts.items():
        rec = byid[rid]
        res.traces += 1
        for c in app:
            res.clause(c, 1, 1 if c in fails else 0)
        if app:
            res.nontrivial.add(rid)
        for c in fails:
            res.violation(c, rec)
    return verdicts


def brief(rec):
    keys = ["id", "cls", "nodes", "edges", "ew", "nw", "mode", "wt", "k", "ign", "cons", "starts", "ends", "opt",
            "solved", "routes", "weights", "slacks", "obj"]
    return {k: rec[k] for k in keys if k in rec}
