"""Generic pipeline: instances -> real code (harness) -> records -> TLC trace validation."""
import os
import shutil
import vlib


def drive(insts, limit=90):
    sc = vlib.scratch_dir()
    src = os.path.join(sc, "inst.ndjson")
    dst = os.path.join(sc, "obs.ndjson")
    vlib.write_ndjson(src, insts)
    vlib.run_harness("drive_models.py", [src, dst, limit])
    recs = [vlib.normalize_model_rec(r) for r in vlib.read_ndjson(dst)]
    shutil.rmtree(sc, ignore_errors=True)
    if len(recs) != len(insts):
        raise vlib.Machinery("driver lost records")
    return recs


def validate(recs, prop, res, clause_prop=None):
    """TLC decides every applicable clause of ClausesOf(clause_prop) on every record."""
    verdicts = vlib.validate_records("Trace_Models", "Trace.cfg", recs, clause_prop or prop, res)
    byid = {r["id"]: r for r in recs}
    for rid, (app, fails) in verdicts.items():
        rec = byid[rid]
        res.traces += 1
        for c in app:
            res.clause(c, 1, 1 if c in fails else 0)
        if app:
            res.nontrivial.add(rid)
        for c in fails:
            res.violation(c, rec)
    return verdicts


def brief(rec):
    keys = ["id", "cls", "nodes", "edges", "ew", "nw", "mode", "wt", "k", "ign", "cons", "starts", "ends", "opt",
            "solved", "routes", "weights", "slacks", "obj"]
    return {k: rec[k] for k in keys if k in rec}


def adversary(module, recs, res, cfg="Adv.cfg", nshards=16, timeout=2400, tags=("WITNESS",), heap="3g", extra_env=None):
    """Run an adversary machine over records (each carrying its own bound); returns {id: [witness tuples]}."""
    if not recs:
        return {}
    sc = vlib.scratch_dir()
    files = []
    # balance shards by a rough cost estimate (bigger bound / more edges = costlier)
    order = sorted(recs, key=lambda r: -(len(r.get("edges", [1])) * (1 + max(0, r.get("bound", 1)))))
    for i, sh in enumerate(vlib.shard(order, nshards)):
        p = os.path.join(sc, f"adv{i}.ndjson")
        vlib.write_ndjson(p, sh)
        files.append(p)
    rs = vlib.run_shards(module, cfg, files, extra_env or {}, timeout=timeout, heap=heap)
    wit = {}
    for r in rs:
        if not vlib.tlc_ok(r):
            raise vlib.Machinery(f"TLC failed on {module}: " + r["stdout"][-3000:])
        res.add_tlc(r)
        for v in vlib.extract_tagged(r["stdout"], tags=tags):
            wit.setdefault(v[1], []).append(v)
    shutil.rmtree(sc, ignore_errors=True)
    return wit


def min_count_adversary(recs, res, module, exact, exists_bound=None):
    """Optimality of a count objective, decided by TLC exploring `module` bounded by the observation.
    exact(r) -> bool: the adversary's search space is complete for r (DESIGN 5.3)."""
    adv = []
    kind = {}
    for r in recs:
        if r.get("timeout") or not exact(r):
            continue
        if r["solved"] and r["got_solution"]:
            b = len([p for p in r["routes"] if len(p) >= 1]) - 1
            if b < 0:
                continue
            a = dict(r)
            a["bound"] = b
            adv.append(a)
            kind[r["id"]] = "Minimal"
            res.count_class("adversary_minimality_runs")
        elif r.get("expect_solved") and not r["solved"]:
            a = dict(r)
            a["bound"] = exists_bound(r) if exists_bound else len(r["edges"]) + len(r["nodes"])
            adv.append(a)
            kind[r["id"]] = "Exists"
            res.count_class("adversary_existence_runs")
    wit = adversary(module, adv, res)
    byid = {r["id"]: r for r in recs}
    for rid, ws in wit.items():
        c = "MinimalCount" if kind[rid] == "Minimal" else "SolutionExistsButUnsolved"
        res.clause(c, 0, 1)
        res.violation(c, byid[rid], {"witness": ws[0], "meaning": "TLC reached a goal state of " + module +
                                     f" using {ws[0][2]} routes (bound {[a['bound'] for a in adv if a['id']==rid][0]})"})
    for a in adv:
        res.clause("MinimalCount" if kind[a["id"]] == "Minimal" else "SolutionExistsButUnsolved", 1, 0)
    return wit


def reach_adversary(module, adv, res, clause):
    """adv: records with `bound` and `expect` in {"reach","unreach"}; TLC decides reachability of the goal within
    the bound; a mismatch is a violation of `clause` (extra carries what TLC found)."""
    wit = adversary(module, adv, res)
    for a in adv:
        got = a["id"] in wit
        ok = got == (a["expect"] == "reach")
        res.clause(clause, 1, 0 if ok else 1)
        if not ok:
            res.violation(clause, a, {"expected": a["expect"], "tlc": "goal reached with " + str(wit[a["id"]][0][2]) + " routes"
                                      if got else "goal unreachable within bound " + str(a["bound"])})
    return wit


def drive_substrate(insts, limit=60):
    sc = vlib.scratch_dir()
    src = os.path.join(sc, "inst.ndjson")
    dst = os.path.join(sc, "obs.ndjson")
    vlib.write_ndjson(src, insts)
    vlib.run_harness("drive_substrate.py", [src, dst, limit])
    recs = vlib.read_ndjson(dst)
    shutil.rmtree(sc, ignore_errors=True)
    return recs


def design_mc(res, module, cfg, trace_file=None, what="", workers=8, timeout=1200, env=None):
    """design-level model checking of a specification machine (invariants / temporal properties of the cfg); a violated
    property of the DESIGN is reported as a violation of clause DesignLevel_<module>."""
    e = dict(env or {})
    if trace_file:
        e["TRACE_FILE"] = trace_file
    r = vlib.run_tlc(module, cfg, env=e, workers=workers, timeout=timeout, heap="4g")
    ok = vlib.tlc_ok(r)
    res.add_tlc(r)
    res.mc.append({"module": module, "config": cfg, "what": what, "distinct_states": r["distinct"], "states": r["states"], "ok": ok})
    if not ok:
        if "violated" in r["stdout"] or "Invariant" in r["stdout"]:
            res.violation("DesignLevel_" + module, {"id": module, "tlc": r["stdout"][-2500:]})
        else:
            raise vlib.Machinery(f"{module}/{cfg} failed: " + r["stdout"][-1500:])
    res.clause("DesignLevel_" + module, 1, 0 if ok else 1)
    return ok


def design_proof(res, module, what=""):
    """TLAPS proof of a design-level theorem (spec/proofs/<module>.tla) - unbounded, unlike the TLC run of the same
    property.  A failed obligation is a machinery failure of the proof script or a changed specification: reported as a
    violation of clause DesignProof_<module> only if tlapm ran and left obligations unproved."""
    r = vlib.run_tlapm(module)
    res.mc.append({"module": "proofs/" + module, "config": "tlapm", "what": what, "distinct_states": 0, "states": 0,
                   "obligations_proved": r["obligations"], "ok": r["ok"]})
    if not r["ok"]:
        if "obligations failed" in r["stdout"] or "obligation failed" in r["stdout"]:
            res.violation("DesignProof_" + module, {"id": module, "tlapm": r["stdout"][-2500:]})
        else:
            raise vlib.Machinery(f"tlapm {module} failed: " + r["stdout"][-1500:])
    res.clause("DesignProof_" + module, 1, 0 if r["ok"] else 1)
    return r["ok"]


_CALL_KEYS = ("cls", "nodes", "edges", "ew", "nw", "mode", "wt", "num", "den", "k", "ign", "cons", "cov", "covlen", "elen", "nlen",
              "starts", "ends", "escale", "sws", "plr", "plf", "opt", "cons_kind", "float_data", "eps", "lam", "ignpct", "trustpct",
              "lenattr", "scan_size", "order")


def presolve_off_probe(records):
    """Re-run the given (violating) model records with the solver's presolve switched off - same class, same input, same
    options.  If the library itself then reports a strictly better objective (or solves what it did not solve), the answer
    was cut off inside the solver: recorded on the record as highs_presolve_changes_optimum (used only to match the known
    finding about HiGHS presolve narrowly).  Says nothing about what the right answer is."""
    redo = []
    for r0 in records:
        if "cls" not in r0 or r0.get("highs_presolve_changes_optimum") is not None:
            continue
        x = {k: v for k, v in r0.items() if k in _CALL_KEYS}
        for key in ("ign", "cons", "starts", "ends", "escale", "sws", "plr", "plf", "elen", "nlen", "ew", "nw"):
            if x.get(key) == []:          # defaults filled in by the normaliser: not part of the original call
                x.pop(key)
        if "cons" not in x:
            x.pop("cov", None)
            x.pop("cons_kind", None)
        if x.get("k") == vlib.NONE:
            x.pop("k")
            if r0.get("k_none"):
                x["k_none"] = True
        if x.get("covlen", [0, 1])[0] == 0:
            x.pop("covlen", None)
        if x.get("eps") == [0, 1]:
            x.pop("eps")
        if x.get("lam") == [0, 1]:
            x.pop("lam")
        if x.get("ignpct", -1) < 0:
            x.pop("ignpct", None)
        x["sopt"] = {"presolve": "off"}
        x["id"] = len(redo) + 1
        redo.append((x, r0))
    if not redo:
        return
    for (x, r0), o in zip(redo, drive([x for x, _ in redo])):
        r0["obj_presolve_off"] = o["obj"]
        better = o["solved"] and o["obj"] != vlib.NONE and r0.get("obj", vlib.NONE) != vlib.NONE and o["obj"] < r0["obj"] - 1
        r0["highs_presolve_changes_optimum"] = bool(better or (o["solved"] and not r0.get("solved")))


def attribute_presolve(res, known):
    """before finish(): probe the records of violations that no known finding matches yet (presolve_off_probe)."""
    todo = []
    for clause, rec, extra in res.violations:
        if isinstance(rec, dict) and "cls" in rec and vlib.match_known(known, res.prop, clause, rec) is None:
            todo.append(rec)
    if todo:
        presolve_off_probe(todo[:40])
