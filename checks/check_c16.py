"""C16 - MinErrorFlow returns a closest non-negative flow on the same graph."""
import random
import vlib
import compose as C
import pipeline as P
import fitcommon as F
import check_c11

PROP = "C16"


def instances(tier, rng):
    quick = tier == "quick"
    dag = vlib.universe("dag", 4, k=3, w=3, cap=12)
    cyc = vlib.universe("cyc", 3, maxe=9, k=2, w=2, l=1, cap=6)
    cyc4 = vlib.universe("cyc", 4, maxe=6, k=2, w=2, l=1, cap=4)
    us = [dict(u, _dag=True) for u in C.spread(dag, 60 if quick else 495)] + C.spread(cyc, 15 if quick else 72) + C.spread(cyc4, 50 if quick else 600)
    insts, node_insts, groups = [], [], []
    g = 0
    for u0 in us:
        for u in (F.perturb(u0, rng, nmax=2), F.perturb(u0, rng, nmax=1)):
            feats = [{}]
            extra = []
            e = list(rng.choice(u["edges"]))
            if len(u["edges"]) >= 2:
                extra.append({"ign": [e]})
            extra.append({"escale": [[e, 1, 2]]})
            extra.append({"escale": [[e, 0, 1]]})
            extra.append({"starts": [rng.choice(u["nodes"])]})
            extra.append({"ends": [rng.choice(u["nodes"])]})
            for cfg in feats + rng.sample(extra, 2 if quick else len(extra)):
                for wt, num, den in (("int", 1, 1), ("float", 1, 2)) if rng.random() < 0.3 else (("int", 1, 1),):
                    r = C.base(u, "MinErrorFlow")
                    r.update(cfg)
                    r["wt"], r["num"], r["den"] = wt, num, den
                    r["cyc"] = not u0.get("_dag", False)
                    r["has_starts_or_ends"] = bool(cfg.get("starts") or cfg.get("ends"))
                    insts.append(r)
            # epsilon variant grouped with the plain run;  sparsity (DAG only): validity only
            g += 1
            for var in ({}, {"eps": [1, 2]}, {"eps": [1, 10]}):
                r = C.base(u, "MinErrorFlow")
                r.update(var)
                r["wt"] = "int"
                r["grp"] = g
                groups.append(r)
            # the epsilon variant with an ignored / zero-scaled element, and in node mode
            g += 1
            e = list(rng.choice(u["edges"]))
            feat = rng.choice([{"ign": [e]}, {"escale": [[e, 0, 1]]}])
            for var in ({}, {"eps": [1, 10]}, {"eps": [1, 2]}):
                r = C.base(u, "MinErrorFlow")
                r.update(feat)
                r.update(var)
                r["wt"] = "int"
                r["grp"] = g
                groups.append(r)
            if rng.random() < 0.5:
                g += 1
                for var in ({}, {"eps": [1, 10]}):
                    r = C.base(u, "MinErrorFlow", "node")
                    r.update(var)
                    r["wt"] = "int"
                    r["grp"] = g
                    groups.append(r)
            if u0.get("_dag") and rng.random() < 0.3:
                r = C.base(u, "MinErrorFlow")
                r["wt"] = "int"
                r["lam"] = [1, 2]
                insts.append(r)
            if rng.random() < 0.5:
                r = C.base(u, "MinErrorFlow", "node")
                r["wt"] = "int"
                node_insts.append(r)
            if rng.random() < 0.6:       # node mode with a zero-scaled / half-scaled / ignored NODE: named by the caller as a node,
                r = C.base(u, "MinErrorFlow", "node")      # meant by the model as that node's edge of the expansion
                r["wt"] = "int"
                # weights pushed off a flow at the chosen node, so that ignoring it (or not) changes the optimum
                v = rng.choice(u["nodes"])
                r["nw"] = list(r["nw"])
                r["nw"][u["nodes"].index(v)] += rng.choice([2, 3, 5])
                r.update(rng.choice([{"escale": [[v, 0, 1]]}, {"escale": [[v, 0, 1]]}, {"escale": [[v, 1, 2]]}, {"ign": [v]}]))
                node_insts.append(r)
            if rng.random() < 0.5:       # node mode with declared starts / ends: translated through the expansion
                r = C.base(u, "MinErrorFlow", "node")
                r["wt"] = "int"
                r[rng.choice(["starts", "ends"])] = [rng.choice(u["nodes"])]
                if rng.random() < 0.5:
                    r["ends"] = [rng.choice(u["nodes"])]
                node_insts.append(r)
    # an element measured far too low where several heavy routes meet: the planted flow with its largest value replaced by 0 or 1.
    # The planted flow is passed along as a WITNESS (TLC re-validates that it is a flow): the answer may not be farther away
    big = [u for u in vlib.universe("dag", 4, k=3, w=3, cap=12) + C.motifs()[0] + C.motifs()[1] if len(u["proutes"]) >= 2]
    heavy = [C.replant(u, rng, weights=(4, 5, 5), max_extra=0) for u in C.motifs()[0] + C.motifs()[1] if len(u["proutes"]) >= 2]
    for u in C.spread(big, 30 if quick else 300) + C.spread(heavy, 14 if quick else 60):
        i = max(range(len(u["ew"])), key=lambda j: u["ew"][j])
        if u["ew"][i] < 4:
            continue
        for low in (0, 1):
            for wt, num, den in (("int", 1, 1), ("float", 1, 2)):
                r = C.base(u, "MinErrorFlow")
                r["wit_ew"] = list(u["ew"])
                r["ew"] = list(u["ew"])
                r["ew"][i] = low
                r["wt"], r["num"], r["den"] = wt, num, den
                r["cyc"] = C._has_cycle(u)
                r["has_starts_or_ends"] = False
                insts.append(r)
    return insts, node_insts, groups


def run(tier, seed):
    res = vlib.Result(PROP, tier, seed)
    rng = random.Random(seed)
    known = vlib.load_known()
    insts, node_insts, groups = instances(tier, rng)
    C.with_ids(insts)
    C.with_ids(groups, start=len(insts) + 1)
    base = len(insts) + len(groups)
    for i, r in enumerate(node_insts):
        r["id"] = base + 2 * i + 2
        r["grp"] = 10 ** 6 + i
    exp = check_c11.expand_with_tlc(node_insts, res) if node_insts else {}
    edge_twins = []
    for r in node_insts:
        xr = exp[r["id"]]
        tw = {"cls": "MinErrorFlow", "grp": r["grp"], "id": r["id"] + 1, "mode": "edge", "wt": "int",
              "nodes": xr["nodes"], "edges": [list(t) for t in xr["edges"]], "ew": xr["ew"],
              "ign": [list(t) for t in xr["ign"]], "is_expansion": True}
        if xr["starts"]:
            tw["starts"] = xr["starts"]
        if xr["ends"]:
            tw["ends"] = xr["ends"]
        if xr.get("escale"):
            tw["escale"] = [[list(t[0]), t[1], t[2]] for t in xr["escale"]]
        edge_twins.append(tw)
    recs = P.drive(insts + groups + node_insts + edge_twins)
    for r in recs:
        r.setdefault("lam", [0, 1])
        r.setdefault("eps", [0, 1])
        for k in ("c_nodes", "c_edges", "c_vals"):
            r.setdefault(k, [])
        r.setdefault("c_error", vlib.NONE)
        r.setdefault("c_obj", vlib.NONE)
    main = [r for r in recs if "grp" not in r]
    grp = [r for r in recs if "grp" in r]
    judged = [r for r in recs if not r.get("is_expansion")]
    verd = vlib.validate_records("Trace_ErrFlow", "Trace.cfg", judged, PROP, res)
    byid = {r["id"]: r for r in recs}
    for rid, (app, fails) in verd.items():
        res.traces += 1
        res.nontrivial.add(rid)
        for c in app:
            res.clause(c, 1, 1 if c in fails else 0)
        for c in fails:
            res.violation(c, byid[rid])
    # optimality: Bump adversary (edge mode, no sparsity term)
    adv = []
    for r in main:
        if not r["solved"] or r["mode"] != "edge" or r["lam"] != [0, 1] or r["c_obj"] == vlib.NONE:
            continue
        if any(w == vlib.NONE for w in r["ew"]):
            continue
        if r.get("wit_ew"):
            continue      # (far-off inputs: the witness bounds the answer; the bump search would have to walk the whole distance)
        D = 2
        # observed objective in data units * D, strictly-better bound
        obs = (r["c_obj"] * r["den"] * D) / (r["num"] * vlib.UNIT)
        tol = 0 if r["wt"] == "int" else 0.02
        bound = int(-(-(obs - tol) // 1)) - 1          # ceil(obs - tol) - 1
        if bound < 0:
            continue
        a = dict(r)
        a["D"] = D
        a["bound"] = bound
        a["cap"] = max(r["ew"]) * max(1, len(r["edges"])) + 2
        adv.append(a)
        res.count_class("adversary_optimality_runs")
    wit = P.adversary("Adv_ErrFlow", adv, res, cfg="Adv_ErrFlow.cfg")
    for a in adv:
        bad = a["id"] in wit
        res.clause("ClosestFlow", 1, 1 if bad else 0)
        if bad:
            w = min(wit[a["id"]], key=lambda t: t[2])
            res.violation("ClosestFlow", byid[a["id"]], {"witness_cost_in_units_of_1/D": w[2], "D": a["D"], "bound": a["bound"]})
    # groups: epsilon variants within (1+eps) of the plain optimum; node mode == expansion
    for r in grp:
        r["obj"] = r.get("c_error", vlib.NONE) if r["grp"] < 10 ** 6 else r.get("c_obj", vlib.NONE)
        r["cmp"] = [1, 1]
    eps_groups = {}
    for r in grp:
        if r["grp"] < 10 ** 6:
            eps_groups.setdefault(r["grp"], []).append(r)
    for gid, rs in eps_groups.items():
        plain = [r for r in rs if r["eps"] == [0, 1]]
        if not plain or not plain[0]["solved"]:
            continue
        for r in rs:
            r["ref_error"] = plain[0]["c_error"]
    vlib.validate_groups([dict(r) for r in grp if r["grp"] >= 10 ** 6], "C11", res)
    epsrecs = [dict(r) for r in grp if r["grp"] < 10 ** 6 and "ref_error" in r]
    for r in epsrecs:
        ok = r["solved"] and r["c_error"] != vlib.NONE
        res.clause("EpsilonVariantSolved", 1, 0 if ok else 1)
        if not ok:
            res.violation("EpsilonVariantSolved", r)
    verd2 = vlib.validate_records("Trace_Eps", "Trace.cfg", [r for r in epsrecs if r["solved"]], PROP, res)
    byid2 = {r["id"]: r for r in epsrecs}
    for rid, (app, fails) in verd2.items():
        res.traces += 1
        for c in app:
            res.clause(c, 1, 1 if c in fails else 0)
        for c in fails:
            res.violation(c, byid2[rid])
    for r in recs:
        if r["solved"]:
            res.count_class("solved")
            if r["mode"] == "node":
                res.count_class("solved_node_mode")
            if r["eps"] != [0, 1]:
                res.count_class("solved_with_epsilon")
            if any(a == b for a, b in r["edges"]) or r.get("cyc"):
                res.count_class("solved_with_self_loop")
    res.evaluations = len(recs)
    res.samples = [{k: main[0].get(k) for k in ("nodes", "edges", "ew", "wt", "ign", "escale", "starts", "ends", "c_vals", "c_error", "c_obj")}]
    res.rule = ("perturbed (non-conserving) integer weights on TLC-enumerated DAGs and cyclic digraphs x {plain, ignored edge, error "
                "scaling 1/2 and 0, start, end} x {int, float x0.5}; epsilon variants; sparsity; node mode paired with the TLC-computed "
                "expansion; validity by Trace_ErrFlow, optimality by the unit-bump adversary bounded by the observed objective")
    P.attribute_presolve(res, known)
    return res.finish(known, require_classes=["solved", "solved_node_mode", "solved_with_epsilon", "adversary_optimality_runs"])


def replay(path, seed):
    import json
    d = json.load(open(path))
    o = P.drive([d["record"]])[0]
    print(json.dumps({k: o.get(k) for k in ("nodes", "edges", "ew", "ign", "escale", "starts", "ends", "solved", "c_vals", "c_error", "c_obj")}))
    return 0
