"""C01 - returned paths/walks are real source-to-sink routes of the caller's graph."""
import random
import vlib
import compose as C
import pipeline as P

PROP = "C01"


def variants(u, cls, rng, cyc, n_extra):
    """base configuration + n_extra random feature combinations (pure syntax)."""
    out = []
    cover = cls in C.COVER
    kcls = cls not in C.MINCLS
    kp = max(1, len(u["proutes"]))

    def mk(mode="edge", wt="int", **kw):
        r = C.base(u, cls, mode)
        if not cover:
            r["wt"] = wt
        if kcls:
            r["k"] = kw.pop("k", kp)
        r.update(kw)
        return r

    out.append(mk())
    out.append(mk(mode="node"))
    if not cover:
        out.append(mk(wt="float", num=1, den=2))
    inner = [v for v in u["nodes"]]
    for _ in range(n_extra):
        mode = rng.choice(["edge", "edge", "node"])
        kw = {}
        wt = rng.choice(["int", "int", "float"])
        if wt == "float":
            kw["num"], kw["den"] = rng.choice([(1, 2), (1, 10), (3, 1), (1, 1)])
        feats = rng.sample(["starts", "ends", "ign", "cons", "opt", "kplus", "escale"], rng.randint(1, 3))
        if "starts" in feats and not (cls in C.NO_STARTS_EDGE and mode == "edge") and cls != "kFlowDecomp":
            kw["starts"] = [rng.choice(inner)]
        if "ends" in feats and not (cls in C.NO_STARTS_EDGE and mode == "edge") and cls != "kFlowDecomp":
            kw["ends"] = [rng.choice(inner)]
        if "ign" in feats:
            if mode == "edge":
                kw["ign"] = [list(rng.choice(u["edges"]))]
            else:
                kw["ign"] = [rng.choice(u["nodes"])]
        if "cons" in feats and u["proutes"]:
            p = rng.choice(u["proutes"])
            es = C.route_edges(p)
            if es:
                i = rng.randrange(len(es))
                seg = es[i:i + 2]
                if mode == "edge":
                    kw["cons"] = [seg]
                else:
                    kw["cons"] = [seg]     # edge-form constraints are accepted in node mode too
                kw["cov"] = rng.choice([[1, 1], [1, 2]])
        if "opt" in feats:
            if cyc:
                kw["opt"] = {k: rng.choice([True, False]) for k in
                             rng.sample(["optimize_with_safe_sequences", "optimize_with_safe_sequences_allow_geq_constraints",
                                         "optimize_with_safe_sequences_fix_zero_edges",
                                         "optimize_with_safety_as_subset_constraints",
                                         "optimize_with_max_safe_antichain_as_subset_constraints"], 2)}
            else:
                kw["opt"] = rng.choice([{"optimize_with_safe_paths": True}, {"optimize_with_safe_sequences": True},
                                        {"optimize_with_greedy": False}, {"optimize_with_safe_zero_edges": True},
                                        {"optimize_with_flow_safe_paths": False, "optimize_with_safe_paths": True},
                                        {"optimize_with_greedy": False, "optimize_with_flow_safe_paths": False}])
        if "kplus" in feats and kcls:
            kw["k"] = kp + 1
        if "escale" in feats and cls in ("kMinPathError", "kLeastAbsErrors", "kMinPathErrorCycles", "kLeastAbsErrorsCycles"):
            if mode == "edge":
                kw["escale"] = [[list(rng.choice(u["edges"])), rng.choice([0, 1]), rng.choice([1, 2])]]
        out.append(mk(mode=mode, wt=wt, **kw))
    return out


def run(tier, seed):
    res = vlib.Result(PROP, tier, seed)
    rng = random.Random(seed)
    known = vlib.load_known()
    quick = tier == "quick"
    dag = vlib.universe("dag", 4, k=3, w=3, cap=12)
    cyc = vlib.universe("cyc", 3, maxe=9, k=2, w=2, l=1, cap=6)
    cyc4 = vlib.universe("cyc", 4, maxe=6, k=2, w=2, l=1, cap=4)
    if quick:
        dag_s, cyc_s, cyc4_s, nx = C.spread(dag, 70), C.spread(cyc, 24), C.spread(cyc4, 60), 2
    else:
        dag_s, cyc_s, cyc4_s, nx = C.spread(dag, 495), cyc, C.spread(cyc4, 700), 4
    insts = []
    DOTTED = ["1", "1.5", "x.0", "x.0.1"]           # node names containing dots, one a prefix of another, '.0'/'.1' endings
    NUMERIC = ["0", "2", "3", "1"]
    for j, u in enumerate(dag_s):
        v = C.rename_scheme(u, DOTTED[:len(u["nodes"])]) if j % 5 == 1 else (C.rename_scheme(u, NUMERIC[:len(u["nodes"])]) if j % 5 == 3 else u)
        for cls in C.DAG_K + C.DAG_MIN:
            insts += variants(v, cls, rng, False, nx)
    # the minimum searches with their own helper searches switched on (guessed weights: the helper model with given weights may
    # become the answer, and it has one layer per guessed weight - more than the minimum needs)
    for j, u in enumerate(dag_s + cyc_s + cyc4_s):
        cycl = j >= len(dag_s)
        cls = "MinFlowDecompCycles" if cycl else "MinFlowDecomp"
        for opt in ({"optimize_with_guessed_weights": True}, {"optimize_with_guessed_weights": True, "optimize_with_greedy": False},
                    {"use_min_gen_set_lowerbound": True, "optimize_with_greedy": False}):
            if cycl and "optimize_with_greedy" in opt:
                continue
            for mode in (("edge", "node") if j % 3 == 0 else ("edge",)):
                r = C.base(u, cls, mode)
                r["wt"] = "int"
                r["opt"] = dict(opt)
                insts.append(r)
    for u in dag_s:
        if u["pweights"]:
            # weight supersets whose spare (unusable) candidates follow the needed ones: layers stay empty after non-empty ones
            spare = max(u["ew"]) + 1
            for cls in ("kFlowDecomp", "kLeastAbsErrors", "kMinPathError"):
                for sws in (list(u["pweights"]) + [spare, spare + 1], [spare] + list(u["pweights"]) + [spare + 2],
                            "fewer", "too_few"):
                    r = C.base(u, cls)
                    r["wt"] = "int"
                    if sws == "fewer":          # a superset longer than k: at most k of its weights may be used
                        sws = list(u["pweights"]) + [1, 2]
                        r["k"] = len(u["pweights"])
                    elif sws == "too_few":      # ... and k below what the flow needs: whatever is reported must respect k
                        sws = list(u["pweights"]) + [1, 1, 2]
                        r["k"] = max(1, len(u["pweights"]) - 1)
                    else:
                        r["k"] = len(sws)
                    r["sws"] = sws
                    if cls == "kFlowDecomp":
                        r["opt"] = {"optimize_with_greedy": False}
                    insts.append(r)
    for j, u in enumerate(cyc_s + cyc4_s):
        v = C.rename_scheme(u, DOTTED[:len(u["nodes"])]) if j % 5 == 1 else (C.rename_scheme(u, NUMERIC[:len(u["nodes"])]) if j % 5 == 3 else u)
        for cls in C.CYC_K + C.CYC_MIN:
            insts += variants(v, cls, rng, True, nx)
        # cyclic flow decomposition with GIVEN walk weights, one of which no walk can use: that layer stays empty and must
        # not come back as a route (allow_empty_walks)
        if u["pweights"]:
            for gw in (list(u["pweights"]) + [max(u["ew"]) + 1], [max(u["ew"]) + 1] + list(u["pweights"])):
                r = C.base(v, "kFlowDecompCycles")
                r["wt"] = "int"
                r["k"] = len(gw)
                r["opt"] = {"given_weights": gw, "allow_empty_walks": True, "optimize_with_safe_sequences": False}
                insts.append(r)
    C.with_ids(insts)
    recs = P.drive(insts)
    res.evaluations = len(recs)
    P.validate(recs, PROP, res)
    for r in recs:
        if r["solved"]:
            res.count_class("solved")
            res.count_class("solved_" + r["cls"])
            if r["mode"] == "node":
                res.count_class("solved_node_mode")
            if r["starts"] or r["ends"]:
                res.count_class("solved_with_starts_ends")
        if r["ctor_exc"] != "none":
            res.count_class("ctor_exception")
        if r.get("timeout"):
            res.count_class("timeout")
    res.samples = [P.brief(r) for r in recs[:2] + recs[-1:]]
    res.rule = ("TLC-enumerated DAGs (<=4 nodes) and cyclic digraphs (<=4 nodes, <=6 edges) with planted flows x 12 model "
                "classes x base/node/float + seeded feature combinations; a record is non-trivial when the model reported "
                "solved so that at least one C01 clause applies")
    res.exhaustive = False
    return res.finish(known, require_classes=["solved", "solved_node_mode"] +
                      ["solved_" + c for c in ("kFlowDecomp", "kLeastAbsErrors", "kMinPathError", "kPathCoverCycles")])


def replay(path, seed):
    import json
    d = json.load(open(path))
    rec = d["record"]
    inst = {k: v for k, v in rec.items()}
    recs = P.drive([inst])
    res = vlib.Result(PROP, "quick", seed)
    P.validate(recs, PROP, res)
    print(json.dumps(P.brief(recs[0])))
    return 1 if res.violations else 0
