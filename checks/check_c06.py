"""C06 - safe paths/sequences are truly safe, mutually incompatible, prune soundly."""
import itertools
import os
import random
import shutil
import vlib
import compose as C
import pipeline as P

PROP = "C06"


def shapes(us):
    seen, out = set(), []
    for u in us:
        key = str(u["edges"])
        if key not in seen:
            seen.add(key)
            out.append(u)
    return out


def subsets(edges, rng, quick):
    """trusted-edge sets: all edges, every singleton, all subsets when small, random subsets otherwise."""
    E = [list(e) for e in edges]
    out = [E] + [[e] for e in E]
    if len(E) <= (4 if quick else 6):
        for r in range(2, len(E)):
            out += [list(c) for c in itertools.combinations(E, r)]
    else:
        for _ in range(4 if quick else 12):
            out.append(rng.sample(E, rng.randint(2, len(E) - 1)))
    return out


def direct_instances(tier, rng):
    quick = tier == "quick"
    dag = shapes(vlib.universe("dag", 4, k=3, w=3, cap=12))
    cyc = shapes(vlib.universe("cyc", 3, maxe=9, k=2, w=2, l=1, cap=6))
    cyc4 = shapes(vlib.universe("cyc", 4, maxe=6, k=2, w=2, l=1, cap=4))
    if not quick:
        dag = dag + C.spread(shapes(vlib.universe("dag", 5, k=3, w=2, cap=6)), 300)
    insts = []
    for u in (C.spread(dag, 30) if quick else dag):
        for st, en in (([], []), ([rng.choice(u["nodes"])], [rng.choice(u["nodes"])])):
            for X in subsets(u["edges"], rng, quick):
                items = [[e] for e in X]
                for fn in ("safe_paths", "safe_sequences"):
                    insts.append({"kind": "dag", "fn": fn, "nodes": u["nodes"], "edges": u["edges"], "starts": st, "ends": en,
                                  "items": items})
            # subpath constraints as seeds of safe sequences
            for p in u["proutes"][:2]:
                es = C.route_edges(p)
                if len(es) >= 2:
                    insts.append({"kind": "dag", "fn": "safe_sequences", "nodes": u["nodes"], "edges": u["edges"], "starts": st,
                                  "ends": en, "items": [es[:2], [es[-1]]]})
    for u in (cyc + C.spread(cyc4, 60 if quick else 1236)):
        for st, en in (([], []), ([rng.choice(u["nodes"])], [rng.choice(u["nodes"])])):
            for X in subsets(u["edges"], rng, True):
                insts.append({"kind": "digraph", "fn": "dominators+incompatible", "nodes": u["nodes"], "edges": u["edges"],
                              "starts": st, "ends": en, "items": [[e] for e in X]})
    # larger graphs (seeded random DAGs and cyclic digraphs on 5-7 nodes) with trusted sets that are proper subsets: edges in no
    # safe sequence weigh 0 in the antichain computation that assigns sequences to slots
    big = []
    for _ in range(24 if quick else 200):
        big.append(C.random_dag(rng, rng.randint(5, 7), rng.randint(7, 10)))
    for _ in range(12 if quick else 100):
        g = C.random_cyclic(rng, rng.randint(5, 6), rng.randint(7, 9))
        if g:
            big.append(g)
    for u in big:
        E = [list(e) for e in u["edges"]]
        for _ in range(4):
            X = rng.sample(E, rng.randint(2, max(2, len(E) // 2)))
            insts.append({"kind": "digraph", "fn": "dominators+incompatible", "nodes": u["nodes"], "edges": u["edges"],
                          "starts": [], "ends": [], "items": [[e] for e in X], "big": True})
    return insts


def flow_instances(tier, rng):
    quick = tier == "quick"
    dag = vlib.universe("dag", 4, k=3, w=2 if quick else 3, cap=12)
    us = [u for u in dag if max(u["ew"]) <= (4 if quick else 6)]
    us = C.spread(us, 120 if quick else 495)
    # larger shapes: nodes with several ways in AND several ways out (the excess of a window through them can be exactly 0 when
    # the planted weights are equal) - the DAG motifs and 5-node DAGs
    big = [u for u in C.motifs()[0] + ([] if quick else vlib.universe("dag", 5, k=3, w=2, cap=6)) if max(u["ew"]) <= 4]
    us = us + C.spread(big, 60 if quick else 600)
    return [{"kind": "dag", "fn": "flow_safe_paths", "nodes": u["nodes"], "edges": u["edges"], "ew": u["ew"], "starts": [],
             "ends": [], "items": []} for u in us]


def model_instances(tier, rng):
    """model-level: sequences assigned to slots and pruned (slot, edge) pairs, recorded after construction."""
    quick = tier == "quick"
    cyc = vlib.universe("cyc", 3, maxe=9, k=2, w=2, l=1, cap=6)
    cyc4 = vlib.universe("cyc", 4, maxe=6, k=2, w=2, l=1, cap=4)
    dag = vlib.universe("dag", 4, k=3, w=3, cap=12)
    insts = []
    for u in C.spread(cyc, 20 if quick else 72) + C.spread(cyc4, 60 if quick else 900):
        for cls in C.CYC_K:
            for opt in ({"optimize_with_safe_sequences": True, "optimize_with_safe_sequences_fix_zero_edges": True},
                        {"optimize_with_safe_sequences": True, "optimize_with_safe_sequences_fix_zero_edges": True,
                         "optimize_with_safe_sequences_fix_via_bounds": True}):
                for k in (max(1, len(u["proutes"])), len(u["proutes"]) + 1):
                    r = C.base(u, cls)
                    if cls not in C.COVER:
                        r["wt"] = "int"
                    r["k"] = k
                    r["opt"] = opt
                    r["ops"] = ["safety"]
                    if rng.random() < 0.3:
                        r["starts"] = [rng.choice(u["nodes"])]
                    insts.append(r)
    for u in C.spread(dag, 40 if quick else 495):
        for cls in C.DAG_K:
            for opt in ({"optimize_with_safe_paths": True, "optimize_with_safe_zero_edges": True, "optimize_with_greedy": False,
                         "optimize_with_flow_safe_paths": False},
                        {"optimize_with_safe_paths": False, "optimize_with_safe_sequences": True, "optimize_with_safe_zero_edges": True,
                         "optimize_with_greedy": False, "optimize_with_flow_safe_paths": False},
                        {"optimize_with_greedy": False}):
                r = C.base(u, cls)
                if cls not in C.COVER:
                    r["wt"] = "int"
                r["k"] = max(1, len(u["proutes"]))
                r["opt"] = opt
                r["ops"] = ["safety"]
                insts.append(r)
    return insts


def run(tier, seed):
    res = vlib.Result(PROP, tier, seed)
    rng = random.Random(seed)
    known = vlib.load_known()
    direct = direct_instances(tier, rng)
    flows = flow_instances(tier, rng)
    models = model_instances(tier, rng)
    C.with_ids(direct)
    C.with_ids(flows, start=len(direct) + 1)
    C.with_ids(models, start=len(direct) + len(flows) + 1)
    sc = vlib.scratch_dir()
    src, dst = os.path.join(sc, "i.ndjson"), os.path.join(sc, "o.ndjson")
    vlib.write_ndjson(src, direct + flows)
    vlib.run_harness("drive_safety.py", [src, dst])
    srecs = vlib.read_ndjson(dst)
    shutil.rmtree(sc, ignore_errors=True)
    drecs = [r for r in srecs if r["fn"] != "flow_safe_paths"]
    frecs = [r for r in srecs if r["fn"] == "flow_safe_paths"]
    mrecs_raw = P.drive(models)
    # model records -> safety records
    mrecs = []
    for r in mrecs_raw:
        if r["ctor_exc"] != "none":
            continue
        slots = r.get("walks_to_fix") or r.get("paths_to_fix") or []
        k = r["k_model"] if r["k_model"] != vlib.NONE else r["k"]
        mrecs.append({"id": r["id"], "cls": r["cls"], "nodes": r["nodes"], "edges": r["edges"], "starts": r["starts"], "ends": r["ends"],
                      "aug_edges": r.get("aug_edges", []), "items": [[e] for e in r.get("trusted", [])], "seqs": r.get("safe_lists", []),
                      "slots": slots[:k], "zero": r.get("set_zero", []), "one": r.get("set_one", []), "opt": r["opt"], "k": k,
                      "exc": "none", "fn": "model"})
    allrecs = drecs + mrecs
    for r in allrecs:
        if r["exc"] != "none":
            res.clause("Computes", 1, 1)
            res.violation("Computes", r)
        else:
            res.clause("Computes", 1, 0)
    ok = [r for r in allrecs if r["exc"] == "none"]
    verd = vlib.validate_records("Trace_Safety", "Trace.cfg", ok, PROP, res)
    byid = {r["id"]: r for r in ok}
    for rid, (app, fails) in verd.items():
        res.traces += 1
        rec = byid[rid]
        for c in app:
            res.clause(c, 1, 1 if c in fails else 0)
        if app:
            res.nontrivial.add(rid)
        for c in fails:
            res.violation(c, rec)
        if "Safe" in app:
            res.count_class("sequences_checked", len(rec["seqs"]))
        if "Incompatible" in app:
            res.count_class("slot_assignments_with_2+_sequences")
        if "PruneSound" in app:
            res.count_class("pruned_slot_edge_pairs", len(rec["zero"]))
        if rec.get("fn") == "model" and rec["slots"] and not rec["cls"].endswith("Cycles"):
            res.count_class("dag_models_with_fixed_paths")
    # flow-safe paths: one adversary record per returned path
    adv = []
    aid = 10 ** 6
    for r in frecs:
        if r["exc"] != "none":
            res.clause("Computes", 1, 1)
            res.violation("Computes", r)
            continue
        for s in r["seqs"]:
            adv.append({"id": aid, "cls": "kFlowDecomp", "nodes": r["nodes"], "edges": r["edges"], "ew": r["ew"], "nw": [],
                        "mode": "edge", "ign": [], "cons": [], "cons_kind": "edge", "cov": [1, 1], "starts": [], "ends": [],
                        "escale": [], "seq": s, "bound": 0, "expect": "unreach", "src": r["id"]})
            aid += 1
    res.count_class("flow_safe_paths_checked", len(adv))
    P.reach_adversary("Adv_FlowSafe", adv, res, "FlowSafe")
    res.evaluations = len(allrecs) + len(adv)
    res.samples = [{k: ok[0][k] for k in ("fn", "nodes", "edges", "items", "seqs")}] + \
                  ([{k: mrecs[0][k] for k in ("cls", "nodes", "edges", "slots", "zero", "one", "k")}] if mrecs else [])
    res.rule = ("every DAG shape (<=4 nodes; thorough <=5) x all / singleton / all small subsets of trusted edges x {safe_paths, "
                "safe_sequences (edges and subpath constraints)}; every cyclic shape x trusted sets x dominator-based maximal safe "
                "sequences + longest incompatible sequences; flow-safe paths on planted flows (unit-path adversary); model-level "
                "slots / zero-fixings / one-fixings of all k-models after construction; decided by Safety!ProdReach (exact)")
    return res.finish(known, require_classes=["sequences_checked", "slot_assignments_with_2+_sequences", "pruned_slot_edge_pairs",
                                              "flow_safe_paths_checked"])


def replay(path, seed):
    import json
    d = json.load(open(path))
    print(json.dumps(d["record"])[:3000])
    return 1
