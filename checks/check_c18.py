"""C18 - a model's result depends only on its own arguments; caller data is never mutated."""
import os
import random
import shutil
import vlib
import compose as C
import pipeline as P

PROP = "C18"


def histories(tier, seed, res):
    num = 60 if tier == "quick" else 600
    r = vlib.run_tlc("Purity", "Gen_Purity.cfg", workers=1, timeout=900, simulate=f"num={num}",
                     extra=["-depth", "7", "-seed", str(seed + 11)])
    hs = vlib.extract_tagged(r["stdout"], tags=("HISTORY",))
    if not hs:
        raise vlib.Machinery("no purity histories: " + r["stdout"][-1500:])
    res.add_tlc(r)
    seen, out = set(), []
    for h in hs:
        k = str(h[1])
        if k not in seen:
            seen.add(k)
            out.append(h[1])
    return out


def run(tier, seed):
    res = vlib.Result(PROP, tier, seed)
    known = vlib.load_known()
    hs = histories(tier, seed, res)
    hs = C.spread(hs, 220 if tier == "quick" else 2500)
    insts = [{"id": i + 1, "ops": h} for i, h in enumerate(hs)]
    sc = vlib.scratch_dir()
    src, dst = os.path.join(sc, "i.ndjson"), os.path.join(sc, "o.ndjson")
    vlib.write_ndjson(src, insts)
    vlib.run_harness("drive_purity.py", [src, dst])
    recs = vlib.read_ndjson(dst)
    files = []
    for i, sh in enumerate(vlib.shard(recs, 16)):
        p = os.path.join(sc, f"p{i}.ndjson")
        vlib.write_ndjson(p, sh)
        files.append(p)
    rs = vlib.run_shards("Trace_Purity", "Trace_Purity.cfg", files, {}, timeout=1200)
    shutil.rmtree(sc, ignore_errors=True)
    byid = {r["id"]: r for r in recs}
    nver = 0
    for r in rs:
        if not vlib.tlc_ok(r):
            raise vlib.Machinery("Trace_Purity failed: " + r["stdout"][-2500:])
        res.add_tlc(r)
        for v in vlib.extract_tagged(r["stdout"], tags=("VERDICT",)):
            nver += 1
            rid, bad = v[1], vlib.setlist(v[3])
            rec = byid[rid]
            res.traces += 1
            res.nontrivial.add(rid)
            byc = {}
            for c, pos in bad:
                byc.setdefault(c, []).append(pos)
            for c in vlib.setlist(v[2]):
                res.clause(c, len(rec["events"]), len(byc.get(c, [])))
            for c, poss in byc.items():
                ev = rec["events"][poss[0] - 1]
                # one violation per (clause, class, changed objects / argument pattern) so that findings can be matched narrowly
                vrec = {"id": rid, "cls": ev.get("cls", "-"), "args": ev.get("args", []), "changed": ev.get("changed", []),
                        "res": ev["res"], "ref": ev["ref"], "history": rec["ops"], "position": poss[0],
                        "changed_kinds": sorted({x[0] for x in ev.get("changed", [])})}
                res.violation(c, vrec)
            res.count_class("constructions", sum(1 for e in rec["events"] if e["op"] == "construct"))
            if any(e["op"] == "construct" and "omit" in e["args"] for e in rec["events"]):
                res.count_class("histories_using_mutable_defaults")
    if nver != len(recs):
        raise vlib.Machinery(f"Trace_Purity: {nver} verdicts for {len(recs)} histories")
    res.evaluations = len(recs)
    res.samples = [{"ops": recs[0]["ops"], "first_event": recs[0]["events"][0]}]
    res.rule = ("histories = TLC -simulate behaviours of Purity.tla (3 model slots, 14 class variants incl. given-weights models, "
                "pool {2 graphs, 2 option dicts, solver options, constraint list, ignore list, omitted}); after every call the harness "
                "dumps every pooled object; every construction is also run in a fresh isolated history; validated by Trace_Purity")
    return res.finish(known, require_classes=["constructions", "histories_using_mutable_defaults"])


def replay(path, seed):
    import json
    d = json.load(open(path))
    print(json.dumps(d["record"])[:3000])
    return 1
