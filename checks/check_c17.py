"""C17 - substrate queries (reachability, antichain, bottleneck peeling) match the graph."""
import os
import random
import shutil
import vlib
import compose as C
import pipeline as P

PROP = "C17"


def histories(tier, seed, res):
    num = 300 if tier == "quick" else 3000
    r = vlib.run_tlc("Substrate", "Gen_Substrate.cfg", workers=1, timeout=600, simulate=f"num={num}",
                     extra=["-depth", "9", "-seed", str(seed + 7)])
    hs = vlib.extract_tagged(r["stdout"], tags=("HISTORY",))
    if not hs:
        raise vlib.Machinery("no substrate histories: " + r["stdout"][-1500:])
    res.add_tlc(r)
    seen, out = set(), []
    for h in hs:
        k = str(h[1])
        if k not in seen:
            seen.add(k)
            out.append(h[1])
    return out


def shapes(us):
    seen, out = set(), []
    for u in us:
        key = str(u["edges"])
        if key not in seen:
            seen.add(key)
            out.append(u)
    return out


def run(tier, seed):
    res = vlib.Result(PROP, tier, seed)
    rng = random.Random(seed)
    known = vlib.load_known()
    quick = tier == "quick"
    hs = histories(tier, seed, res)
    # design level: the greedy max-bottleneck peeling as a state machine, on every planted flow of the DAG universe
    P.design_mc(res, "Greedy", "MC_Greedy.cfg", vlib.universe("dag", 4, k=3, w=3, cap=12, path_only=True),
                what="peeling keeps a conserving residual, ends at zero, uses <= |E|-|V|+2 (+extra sources/sinks) paths, terminates")
    dag = vlib.universe("dag", 4, k=3, w=3, cap=12)
    cyc = vlib.universe("cyc", 3, maxe=9, k=2, w=2, l=1, cap=6)
    cyc4 = vlib.universe("cyc", 4, maxe=6, k=2, w=2, l=1, cap=4)
    insts = []
    items = [("dag", u) for u in C.spread(dag, 80 if quick else 495)] + \
            [("digraph", u) for u in C.spread(cyc, 20 if quick else 72) + C.spread(cyc4, 100 if quick else 1200)]
    # node names that are prefixes / suffixes of each other around the separator the library's helper-node names are built with:
    # ("a", "b_c") and ("a_b", "c") are different edges
    UNDERSCORED = ["a", "a_b", "b_c", "c", "b", "a_b_c", "c_c"]
    for j, (kind, u) in enumerate(items):
        if j % 5 == 4:
            u = C.rename_scheme(u, UNDERSCORED[:len(u["nodes"])])
            res.count_class("underscored_node_names")
        nodes = u["nodes"] + ["S*", "T*"]
        for h in rng.sample(hs, 2 if quick else 4):
            ops = []
            for op in h:
                if op[0] in ("reach", "reaching"):
                    ops.append([op[0], nodes[(op[1] - 1) % len(nodes)]])
                    if kind == "dag" and op[1] % 2 == 0:
                        ops.append(["reach_edges" if op[0] == "reach" else "reach_edges_rev", nodes[(op[1] - 1) % len(nodes)]])
                elif op[0] == "is_scc_edge":
                    if kind == "digraph":
                        e = u["edges"][(op[1] - 1) % len(u["edges"])]
                        ops.append(["is_scc_edge", e[0], e[1]])
                elif op[0] == "maxreach":
                    if kind == "digraph":
                        ops.append(["maxreach"])
                        if rng.random() < 0.6:       # the same object asked for another weight attribute, then the first again
                            ops.append(["maxreach", "alt"])
                            ops.append(["maxreach"])
                elif op[0] == "width":
                    pass          # width is C09's business
            # queries outside the listed ones, on the same objects: SCC statistics, flow width, value helpers, conservation
            IG = [[list(e) for e in rng.sample(u["edges"], rng.randint(0, min(2, len(u["edges"]))))] for _ in range(2)]
            if kind == "digraph":
                ops.insert(rng.randrange(len(ops) + 1), ["scc_stats"])
            elif all(w > 0 for w in u["ew"]) and not (j % 3):
                ops.insert(rng.randrange(len(ops) + 1), ["flow_width", IG[0]])
            ops.insert(rng.randrange(len(ops) + 1), ["max_flow", IG[1] if len(IG[1]) < len(u["edges"]) else []])
            ops.insert(rng.randrange(len(ops) + 1), ["nonzero", IG[0]])
            ops.insert(rng.randrange(len(ops) + 1), ["conserves"])
            # antichain queries with several weight functions (incl. zero and large weights)
            wfs = [[]]
            E = [list(e) for e in u["edges"]]
            wfs.append([[e[0], e[1], rng.choice([0, 1, 2, 5])] for e in E])
            wfs.append([[e[0], e[1], rng.choice([0, 1, 1000000])] for e in E])
            if kind == "dag":
                for wf in wfs:
                    ops.insert(rng.randrange(len(ops) + 1), ["antichain", wf])
                ops.append(["decompose"])
                ops.append(["bottleneck"])
                # the helper the greedy shortcut uses to judge constraint coverage: edges of a sequence found on one path
                if u["proutes"]:
                    seq = [list(rng.choice(u["edges"])) for _ in range(rng.randint(1, 4))]
                    lens = rng.choice([[], [[e[0], e[1], rng.choice([1, 2, 5])] for e in u["edges"] if rng.random() < 0.7]])
                    ops.append(["max_occurrence", seq, [list(p) for p in u["proutes"]], lens])
            st = [rng.choice(u["nodes"])] if rng.random() < 0.3 else []
            if kind == "dag" and st:
                ops = [o for o in ops if o[0] not in ("decompose", "bottleneck")]
            insts.append({"kind": kind, "nodes": u["nodes"], "edges": u["edges"], "ew": u["ew"], "starts": st, "ends": [], "ops": ops,
                          "ew2": [rng.choice([1, 3, 7, 30]) for _ in u["ew"]]})
    # random DAGs on 5-7 nodes with 0/1 weight functions that also weigh the synthetic source/sink edges: zero-weight
    # (zero-flow) edges around the min cut are where a cut extraction goes wrong while the VALUE stays right
    for _ in range(60 if quick else 600):
        u = C.random_dag(rng, rng.randint(5, 7), rng.randint(6, 10))
        if rng.random() < 0.3:
            u = C.rename_scheme(u, UNDERSCORED[:len(u["nodes"])])
            res.count_class("underscored_node_names")
        srcs = [v for v in u["nodes"] if all(e[1] != v for e in u["edges"])]
        snks = [v for v in u["nodes"] if all(e[0] != v for e in u["edges"])]
        AE = [list(e) for e in u["edges"]] + [["S*", v] for v in srcs] + [[v, "T*"] for v in snks]
        ops = []
        for p0 in (0.3, 0.5, 0.7):
            ops.append(["antichain", [[e[0], e[1], 0 if rng.random() < p0 else 1] for e in AE]])
        ops.append(["antichain", [[e[0], e[1], rng.choice([0, 0, 1, 3])] for e in AE]])
        insts.append({"kind": "dag", "nodes": u["nodes"], "edges": u["edges"], "ew": u["ew"], "starts": [], "ends": [], "ops": ops})
    # greedy peeling of FRACTIONAL flows (planted weights / 2, / 4): residual bottlenecks between 0 and 1 are flow like any other
    for u in C.spread(dag, 40 if quick else 495):
        for wden in (2, 4):
            insts.append({"kind": "dag", "nodes": u["nodes"], "edges": u["edges"], "ew": u["ew"], "wden": wden, "starts": [], "ends": [],
                          "ops": [["bottleneck"], ["decompose"], ["reach", u["nodes"][0]], ["decompose"]]})
    # components that lie on no source-to-sink route: a cycle nothing leads into (it is not below the global source) and a cycle
    # nothing leads out of (it does not drain into the global sink); every node incl. the synthetic ends asked twice (cold / warm)
    for u in C.spread(cyc4, 12 if quick else 120) + C.spread(cyc, 6 if quick else 40):
        for shape in ("sourceless", "sinkless", "both"):
            # attached to a node that is not a source / sink already: the graph keeps its sources and sinks, it stays well-formed
            vin = [n for n in u["nodes"] if any(e[1] == n for e in u["edges"])]
            vout = [n for n in u["nodes"] if any(e[0] == n for e in u["edges"])]
            extra = []
            if shape in ("sourceless", "both"):
                extra += [["x1", "y1"], ["y1", "x1"], ["y1", rng.choice(vin)]]
            if shape in ("sinkless", "both"):
                extra += [[rng.choice(vout), "x2"], ["x2", "y2"], ["y2", "x2"]]
            nodes = u["nodes"] + sorted({n for e in extra for n in e} - set(u["nodes"]))
            qs = nodes + ["S*", "T*"]
            rng.shuffle(qs)
            ops = [[o, n] for n in qs for o in ("reach", "reaching")]
            ops += [["scc_stats"]] + [["is_scc_edge", e[0], e[1]] for e in extra] + ops
            insts.append({"kind": "digraph", "nodes": nodes, "edges": [list(e) for e in u["edges"]] + extra,
                          "ew": list(u["ew"]) + [1] * len(extra), "starts": [], "ends": [], "ops": ops})
            res.count_class("components_off_every_route")
    C.with_ids(insts)
    recs = P.drive_substrate(insts)
    bad_ctor = [r for r in recs if r["ctor_exc"] != "none"]
    for r in bad_ctor:
        res.violation("Constructs", r)
    ok = [r for r in recs if r["ctor_exc"] == "none"]
    sc = vlib.scratch_dir()
    files = []
    for i, sh in enumerate(vlib.shard(ok, 16)):
        p = os.path.join(sc, f"s{i}.ndjson")
        vlib.write_ndjson(p, sh)
        files.append(p)
    rs = vlib.run_shards("Trace_Substrate", "Trace_Substrate.cfg", files, {}, timeout=1800)
    shutil.rmtree(sc, ignore_errors=True)
    byid = {r["id"]: r for r in ok}
    nver = 0
    for r in rs:
        if not vlib.tlc_ok(r):
            raise vlib.Machinery("Trace_Substrate failed: " + r["stdout"][-2500:])
        res.add_tlc(r)
        for v in vlib.extract_tagged(r["stdout"], tags=("VERDICT",)):
            nver += 1
            rid, bad = v[1], vlib.setlist(v[3])
            rec = byid[rid]
            res.traces += 1
            res.nontrivial.add(rid)
            nev = len(rec["events"])
            res.count_class("queries_validated", nev)
            badops = {}
            for op, pos in bad:
                badops.setdefault(op, []).append(pos)
            for ev in rec["events"]:
                res.clause("Answer." + ev["op"], 1, 0)
            for op, poss in badops.items():
                res.clause("Answer." + op, 0, len(poss))
                res.violation("Answer." + op, rec, {"event_positions": poss, "event": rec["events"][poss[0] - 1]})
            seen = set()
            for ev in rec["events"]:
                key = (ev["op"], str(ev["arg"]))
                if key in seen:
                    res.count_class("repeated_queries(warm cache)")
                seen.add(key)
                if ev["op"] == "antichain":
                    res.count_class("antichain_queries")
                if ev["op"] == "max_occurrence":
                    res.count_class("max_occurrence_queries")
                if ev["op"] == "decompose":
                    res.count_class("peelings")
    if nver != len(ok):
        raise vlib.Machinery(f"Trace_Substrate: {nver} verdicts for {len(ok)} records")
    res.evaluations = len(recs)
    res.samples = [{"kind": ok[0]["kind"], "nodes": ok[0]["nodes"], "edges": ok[0]["edges"], "ew": ok[0]["ew"],
                    "events": [{k: e[k] for k in ("op", "arg", "ret", "rets")} for e in ok[0]["events"][:4]]}]
    res.rule = ("query histories = TLC -simulate behaviours of Substrate.tla (cache state machine, depth 8) mapped onto TLC-enumerated "
                "DAGs / cyclic digraphs (planted flows as weights), plus antichain queries under 3 weight functions (default, small, "
                "0/1/10^6) and bottleneck peeling; every answer validated by Trace_Substrate against Graphs!ReachFrom etc.")
    return res.finish(known, require_classes=["queries_validated", "repeated_queries(warm cache)", "antichain_queries", "peelings", "underscored_node_names"])


def replay(path, seed):
    import json
    d = json.load(open(path))
    print(json.dumps(d["record"])[:3000])
    return 1
