#!/bin/sh
# tools/thorough_all.sh [ids...] : run the thorough tier of each check, one line per check (development aid)
cd "$(dirname "$0")/.."
ids=${@:-C01 C02 C03 C04 C05 C06 C07 C08 C09 C10 C11 C12 C13 C14 C15 C16 C17 C18 C19 C20}
for i in $ids; do
  t0=$(date +%s)
  out=$(timeout 5400 ./check $i --tier thorough 2>&1); rc=$?
  t1=$(date +%s)
  echo "$i rc=$rc secs=$((t1-t0)) $(echo "$out" | grep -E '^C[0-9]+:' | tail -1) $(echo "$out" | grep -c '^VIOLATION') violations $(echo "$out" | grep '^MACHINERY' | head -1 | cut -c1-300)"
done
