#!/venv/bin/python
"""tools/try_mutant.py <patch.diff> [C01 C02 ...]  - apply a seeded change to /repo, run the given quick checks
(default: all), report which raise an alarm, and ALWAYS undo the change and restore the committed evidence files."""
import json
import os
import subprocess
import sys
import time

HERE = os.path.dirname(os.path.dirname(os.path.abspath(__file__)))
ALL = [f"C{i:02d}" for i in range(1, 21)]


def main_root(patch, props):
    """--root mode: the change is applied in a scratch worktree of /repo's HEAD, the checks read the library from there
    (FLOWPATHS_ROOT) and write their evidence / replay files to a scratch directory: /repo and /verif stay untouched."""
    import shutil
    import tempfile
    wt = tempfile.mkdtemp(prefix="trywt_", dir="/tmp")
    out = tempfile.mkdtemp(prefix="tryout_", dir=os.path.join(HERE, ".scratch"))
    os.rmdir(wt)
    subprocess.run(["git", "-C", "/repo", "worktree", "add", "-q", "--detach", wt, "HEAD"], check=True)
    results = {}
    try:
        r = subprocess.run(["git", "-C", wt, "apply", patch], capture_output=True, text=True)
        if r.returncode != 0:
            print("patch does not apply:", r.stderr)
            sys.exit(2)
        os.makedirs(os.path.join(out, "evidence"), exist_ok=True)
        env = dict(os.environ, FLOWPATHS_ROOT=wt, VERIF_OUT_DIR=out)
        for p in props:
            t0 = time.time()
            c = subprocess.run([os.path.join(HERE, "check"), p, "--tier", "quick"], cwd=HERE, capture_output=True, text=True, env=env)
            lines = [l for l in c.stdout.splitlines() if l.startswith(("VIOLATION", "MACHINERY", "KNOWN-FINDING"))]
            clauses = sorted({l.split("clause=")[1].split()[0] for l in lines if "clause=" in l})
            results[p] = {"rc": c.returncode, "clauses": clauses, "wall": round(time.time() - t0, 1),
                          "machinery": [l[:300] for l in lines if l.startswith("MACHINERY")]}
            print(p, "rc=%d" % c.returncode, clauses, results[p]["machinery"][:1], flush=True)
    finally:
        subprocess.run(["git", "-C", "/repo", "worktree", "remove", "--force", wt], check=False)
        shutil.rmtree(out, ignore_errors=True)
    print(json.dumps(results))


def main():
    if sys.argv[1] == "--root":
        return main_root(os.path.abspath(sys.argv[2]), sys.argv[3:] or ALL)
    patch = os.path.abspath(sys.argv[1])
    props = sys.argv[2:] or ALL
    st = subprocess.run(["git", "-C", "/repo", "status", "--porcelain", "--untracked-files=no"], capture_output=True, text=True).stdout.strip()
    if st:
        print("refusing: /repo has uncommitted changes:\n" + st)
        sys.exit(2)
    r = subprocess.run(["git", "-C", "/repo", "apply", patch], capture_output=True, text=True)
    if r.returncode != 0:
        print("patch does not apply:", r.stderr)
        sys.exit(2)
    results = {}
    try:
        for p in props:
            t0 = time.time()
            c = subprocess.run([os.path.join(HERE, "check"), p, "--tier", "quick"], cwd=HERE, capture_output=True, text=True)
            lines = [l for l in c.stdout.splitlines() if l.startswith(("VIOLATION", "MACHINERY", "KNOWN-FINDING"))]
            clauses = sorted({l.split("clause=")[1].split()[0] for l in lines if "clause=" in l})
            results[p] = {"rc": c.returncode, "clauses": clauses, "wall": round(time.time() - t0, 1),
                          "machinery": [l[:300] for l in lines if l.startswith("MACHINERY")]}
            print(p, "rc=%d" % c.returncode, clauses, results[p]["machinery"][:1], flush=True)
    finally:
        subprocess.run(["git", "-C", "/repo", "checkout", "--", "."], check=False)
        subprocess.run(["git", "-C", HERE, "checkout", "--", "evidence"], check=False)
    print(json.dumps(results))


if __name__ == "__main__":
    main()
