#!/bin/sh
# tools/confirm_patch.sh <worktree> <dir with patch.diff + demo.py> : confirm a seeded change in a scratch worktree:
# demo fails with the change, passes without it, and the repository's tests still pass with it.
WT=$1; M=$2; NAME=$(basename $M)
cd $WT || exit 2
git checkout -q -- flowpaths tests examples 2>/dev/null
git apply $M/patch.diff || { echo "$NAME: patch does not apply"; exit 2; }
PYTHONPATH=$WT /venv/bin/python $M/demo.py >/tmp/w/confirm_${NAME}_with.log 2>&1; A=$?
PYTHONPATH=$WT timeout 1500 /venv/bin/python -m pytest -q -p no:cacheprovider --timeout=900 tests/test_cyclic_models.py tests/test_min_gen_set.py tests/test_examples.py > /tmp/w/confirm_${NAME}_tests.log 2>&1
T=$(tail -1 /tmp/w/confirm_${NAME}_tests.log)
git apply -R $M/patch.diff
PYTHONPATH=$WT /venv/bin/python $M/demo.py >/tmp/w/confirm_${NAME}_without.log 2>&1; B=$?
git checkout -q -- flowpaths 2>/dev/null
echo "$NAME demo_with=$A demo_without=$B tests: $T"
