import ast,sys
def strip(path):
    src=open(path).read()
    tree=ast.parse(src)
    lines=src.split('\n')
    rm=set()
    for node in ast.walk(tree):
        if isinstance(node,(ast.FunctionDef,ast.ClassDef,ast.Module)):
            b=node.body
            if b and isinstance(b[0],ast.Expr) and isinstance(getattr(b[0],'value',None),ast.Constant) and isinstance(b[0].value.value,str):
                for i in range(b[0].lineno-1,b[0].end_lineno):
                    rm.add(i)
    out=[]
    for i,l in enumerate(lines):
        if i in rm: continue
        if l.strip()=='' : continue
        if l.strip().startswith('#'): continue
        out.append(f"{i+1}: {l}")
    print("=== ",path)
    print('\n'.join(out))
for p in sys.argv[1:]:
    strip(p)
