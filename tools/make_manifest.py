#!/venv/bin/python
"""Regenerates /verif/MANIFEST.json from the table below (kept in one place so it stays valid)."""
import json
import os

HERE = os.path.dirname(os.path.dirname(os.path.abspath(__file__)))

TECH = "TLA+ spec + TLC: "
CHECKS = {
    "C01": ("model_checking", "6/C01",
            "TLC trace validation (Trace_Models.tla: Routes!IsRoute clauses) of every solved run of all 12 model classes "
            "on TLC-enumerated universes",
            "Every observed get_solution() of every exported path/walk model on bounded-exhaustive graph universes is "
            "accepted or rejected clause by clause by TLC against Routes!IsRoute on the caller's graph; bounded inputs, "
            "no proof for larger graphs."),
    "C02": ("model_checking", "6/C02",
            "TLC trace validation of FDExact (Problems.tla) on observed decompositions, every solution route forced",
            "Exactness of weight*traversals on every non-ignored element is evaluated by TLC on every solved run, for "
            "greedy / MILP / given-weights / node-mode / ignored / constrained / float variants."),
    "C03": ("model_checking", "6/C03",
            "TLC explores the Peel adversary (Adv_Peel.tla) bounded by the observed path count; trace clauses in Trace_Models",
            "Minimality = unreachability of a residual-zero state with fewer routes, decided exhaustively by TLC per "
            "observation; completeness = solve() succeeds on every planted conserving flow (re-validated by TLC)."),
    "C04": ("model_checking", "6/C04",
            "Peel adversary with walks (Adv_Peel.tla) + Trace_Groups.tla for scaling families",
            "As C03 on cyclic digraphs with integer weights; scaling invariance as an equivalence-of-runs trace."),
    "C05": ("model_checking", "6/C05",
            "Trace_Groups.tla: every run of an input under a flag vector must reproduce the all-off baseline (solved, objective)",
            "Equivalence of runs decided by TLC over flag vectors (all-off, all-on, single on/off, random; full products in the "
            "thorough tier) x inputs x 12 classes; the baseline itself is judged by C03/C04/C07/C08/C09; the premises of the "
            "soundness argument (safe, incompatible, sound pruning) are C06."),
    "C06": ("model_checking", "6/C06",
            "exact product-automaton reachability (Safety.tla: ProdReach) evaluated by TLC on every sequence / slot / pruned pair; "
            "unit-path adversary Adv_FlowSafe.tla for flow-safe paths",
            "Safety, incompatibility and pruning soundness are decided exactly (no bound on walk length) by a least-fixpoint "
            "over graph x progress x progress for every computed sequence on bounded-exhaustive graph and trusted-set universes."),
    "C07": ("model_checking", "6/C07",
            "Fit adversary (Adv_Fit.tla) bounded by the observed objective + consistency clauses in Trace_Models + Trace_Groups "
            "(float no worse than int)",
            "Optimality = unreachability of k routes+weights with a smaller scaled error (exact for integer weights and for "
            "float on DAGs with k<=2); objective / per-edge errors / self-check recomputed by TLC."),
    "C08": ("model_checking", "6/C08",
            "Cover adversary gives the covering number, Fit adversary with slacks bounds the total slack; Trace_Models clauses",
            "Feasibility for k at / above the TLC-computed covering number, k=None picks it, the slack inequality per element "
            "and minimal total slack (integer weights) are decided by TLC per observation."),
    "C09": ("model_checking", "6/C09",
            "Cover adversary (Adv_Cover.tla): minimality, k-feasibility threshold and width = optimum as reachability questions; "
            "Width.tla: the construction behind get_width equals the antichain definition (MC over the universes)",
            "TLC decides, per observation, whether a cover with fewer routes exists, whether kPathCover(k) should be "
            "feasible, and both inequalities of width = min cover."),
    "C10": ("model_checking", "6/C10",
            "ConstraintsHonoured by trace validation (edge-, node- and length-coverage rules of Problems.tla); Peel / Cover / Fit "
            "adversaries take constraints, ignore sets and starts/ends natively; equivalences by Trace_Groups",
            "The optimum over exactly the admissible solutions is decided by the adversaries on the instance with the feature; "
            "scale 0 == ignored and [] == omitted as equivalence-of-runs traces."),
    "C11": ("model_checking", "6/C11",
            "expansion computed by the specification (Gen_Expand.tla / Graphs!Expand), node-mode vs expansion runs compared by "
            "Trace_Groups; NodeExpandedDiGraph validated by Trace_NodeExp.tla",
            "Equal solved status / objective for all 12 classes and features, results in original node names, the expansion "
            "class equals Graphs!Expand, round trips."),
    "C12": ("model_checking", "6/C12",
            "Wrapper.tla state machine (MC + TLC -simulate histories and the directed batches of Gen_WrapperBatch.tla replayed on the "
            "real wrapper, Trace_Wrapper.tla); Gadgets.tla "
            "(MC on the grid) + emitted rows / probes (Trace_Gadget.tla)",
            "Design-level exactness of the three gadgets for ub<=12; emitted rows of the real helpers enumerated exactly for "
            "small bounds and probed through HiGHS for larger; call histories validated state by state."),
    "C13": ("model_checking", "6/C13",
            "Lifecycle.tla (MC, and a TLAPS proof of its invariants for every optimum: proofs/Lifecycle_proofs.tla) generates every "
            "fault schedule; injected into the real solver wrapper; traces replayed through Lifecycle's actions by Trace_Lifecycle.tla; "
            "KModel.tla: one k-model object solved repeatedly (solve / tighten / get sequences from Gen_KModel.tla, Trace_KModel.tla); "
            "NumPaths.tla: the generic optimiser (MC with liveness; every complete behaviour replayed into the real class around a "
            "scripted model, real k-models with injected statuses; logged runs replayed through NumPaths!Run by Trace_NumPaths.tla; "
            "TLAPS proof of ReturnedIsProven); Trace_Options.tla: the backend options \"proved optimal\" rests on, read back",
            "Every position x every inconclusive status (native time limit, interrupt, unknown, custom timeout) of every "
            "minimum search, nested helper searches, k-models, MinErrorFlow (both runs) and NumPathsOptimization; backend runs made to overrun "
            "the library's own SIGALRM time limit; the observed invocation trace must be "
            "a behaviour of the specification and end in the specified outcome."),
    "C14": ("model_checking", "6/C14",
            "Euler.tla: the reconstruction as a state machine, model-checked for every pop order (DoneOK, NeverOveruse, "
            "Terminates); same assignments preset into the real class, Trace_Euler.tla",
            "All traversal-count vectors of bounded SRC-SNK walks on all cyclic shapes <=4 nodes: design-level correctness for "
            "every list order + conformance of get_solution_walks() incl. float noise and all-zero layers."),
    "C15": ("model_checking", "6/C15",
            "GenSet.tla validity + Adv_GenSet.tla bounded by the observed size; MinSetCover against TLC's enumeration of all covers",
            "Validity (sum, every number a bounded sub-multiset sum, partition constraints), minimum size and existence decided "
            "by TLC on a bounded-exhaustive universe of number lists / totals / multiplicities; set covers exhaustively."),
    "C16": ("model_checking", "6/C16",
            "Trace_ErrFlow.tla (same graph, non-negative, conservation, error / objective recomputed) + unit-bump adversary "
            "Adv_ErrFlow.tla bounded by the observed objective; for far-off inputs a witness flow (re-validated by TLC) bounds the answer; "
            "epsilon and node-mode groups",
            "A strictly closer admissible flow is a reachable state of the bump machine: decided by TLC per observation "
            "(integral optimum exists, so exact also for float)."),
    "C17": ("model_checking", "6/C17",
            "Substrate.tla cache machine -> TLC -simulate query histories; every answer validated by Trace_Substrate.tla against "
            "Graphs!ReachFrom / brute-force antichains / FDExact",
            "Answers of reachability / SCC / max-reachable / antichain / peeling queries equal direct search for every query "
            "order incl. repetitions (warm caches) on bounded-exhaustive graph universes."),
    "C18": ("model_checking", "6/C18",
            "Purity.tla -> TLC -simulate aliasing histories; pooled caller objects dumped after every call; Trace_Purity.tla",
            "Pool unchanged, results equal to the same construction in a fresh process, repeated getters / solve() "
            "agree, over generated histories sharing graphs, option dicts, solver options, constraint and ignore lists and "
            "the mutable defaults."),
    "C19": ("model_checking", "6/C19",
            "Validation.tla decision table; TLC enumerates every (class, defect) and (class, defect pair); Trace_Validation.tla",
            "Every single defect and every compatible pair for every class must give ValueError and never a solved model; "
            "converse on well-formed inputs of the universes (three naming schemes)."),
    "C20": ("model_checking", "6/C20",
            "GraphFile.tla grammar with meaning; TLC generates files (block descriptions x corruptions, two-block files); "
            "Trace_GraphFile.tla; stored width by the Cover adversary",
            "read_graphs output equals the specification's meaning of every generated file; every corruption class raises "
            "ValueError."),
}

NOT_YET = {}

LEVEL_NOTE = ("Trusted base: TLC 1.8 + CommunityModules (Json, IOUtils); HiGHS is part of the system under test (its answers are judged by TLC like any other result); the ~dumb "
              "Python harness only builds inputs and serialises outputs. Bounded: instance universes of DESIGN Appendix A.")


def main():
    props = [json.loads(l) for l in open(os.path.join(HERE, "properties.jsonl"))]
    checks = []
    na = []
    for p in props:
        pid = p["id"]
        if pid in CHECKS:
            level, ref, tech, text = CHECKS[pid]
            checks.append({
                "property_id": pid,
                "quick_cmd": f"./check {pid} --tier quick",
                "thorough_cmd": f"./check {pid} --tier thorough",
                "evidence_file": f"/verif/evidence/{pid}.json",
                "replay_cmd_template": f"./check {pid} --replay {{path}}",
                "engine": "tlc",
                "level_claimed": {"category": level, "text": text, "design_ref": "DESIGN.md section " + ref},
                "level_note": LEVEL_NOTE,
                "technique": tech,
            })
        else:
            na.append({"property_id": pid, "reason": NOT_YET.get(pid, "check not built yet in this round (see DESIGN.md section 6 for the plan)")})
    man = {
        "version": 1,
        "setup_cmd": "./setup.sh",
        "hooks": {
            "guard": "FLOWPATHS_VERIF",
            "enable": "FLOWPATHS_VERIF=1 in the environment of the harness processes (set by lib/vlib.py); the library is "
                      "imported from /repo's working tree on every run, nothing is built",
            "baseline_off_cmd": "cd /repo && /venv/bin/python -m pytest -ra -q -p no:cacheprovider --timeout=900 --continue-on-collection-errors",
            "source_commits": [],
            "add_only": True,
        },
        "engines": [{"name": "tlc", "path": "/verif/check", "serves_properties": sorted(CHECKS),
                     "kind_free_text": "explicit TLA+ specification (spec/*.tla) checked with TLC; conformance by TLC trace "
                                       "validation of executions of the real code and by replaying TLC-generated inputs/behaviours"}],
        "checks": checks,
        "not_applicable": na,
        "notes": "See DESIGN.md. Known findings: known_findings.jsonl. Seeded mutants: seeded/.",
    }
    with open(os.path.join(HERE, "MANIFEST.json"), "w") as f:
        json.dump(man, f, indent=1)
    print(f"{len(checks)} checks, {len(na)} not_applicable")


if __name__ == "__main__":
    main()
