#!/venv/bin/python
"""Regenerates /verif/MANIFEST.json from the table below (kept in one place so it stays valid)."""
import json
import os

HERE = os.path.dirname(os.path.dirname(os.path.abspath(__file__)))

TECH = "TLA+ spec + TLC: "
CHECKS = {
    "C01": ("model_checking", "6/C01",
            "TLC trace validation (Trace_Models.tla: Routes!IsRoute clauses) of every solved run of all 12 model classes "
            "on TLC-enumerated universes",
            "Every observed get_solution() of every exported path/walk model on bounded-exhaustive graph universes is "
            "accepted or rejected clause by clause by TLC against Routes!IsRoute on the caller's graph; bounded inputs, "
            "no proof for larger graphs."),
    "C02": ("model_checking", "6/C02",
            "TLC trace validation of FDExact (Problems.tla) on observed decompositions, every solution route forced",
            "Exactness of weight*traversals on every non-ignored element is evaluated by TLC on every solved run, for "
            "greedy / MILP / given-weights / node-mode / ignored / constrained / float variants."),
    "C03": ("model_checking", "6/C03",
            "TLC explores the Peel adversary (Adv_Peel.tla) bounded by the observed path count; trace clauses in Trace_Models",
            "Minimality = unreachability of a residual-zero state with fewer routes, decided exhaustively by TLC per "
            "observation; completeness = solve() succeeds on every planted conserving flow (re-validated by TLC)."),
    "C04": ("model_checking", "6/C04",
            "Peel adversary with walks (Adv_Peel.tla) + Trace_Groups.tla for scaling families",
            "As C03 on cyclic digraphs with integer weights; scaling invariance as an equivalence-of-runs trace."),
    "C09": ("model_checking", "6/C09",
            "Cover adversary (Adv_Cover.tla): minimality, k-feasibility threshold and width = optimum as reachability questions",
            "TLC decides, per observation, whether a cover with fewer routes exists, whether kPathCover(k) should be "
            "feasible, and both inequalities of width = min cover."),
}

NOT_YET = {}

LEVEL_NOTE = ("Trusted base: TLC 1.8 + CommunityModules (Json, IOUtils); HiGHS as used inside the library; the ~dumb "
              "Python harness only builds inputs and serialises outputs. Bounded: instance universes of DESIGN Appendix A.")


def main():
    props = [json.loads(l) for l in open(os.path.join(HERE, "properties.jsonl"))]
    checks = []
    na = []
    for p in props:
        pid = p["id"]
        if pid in CHECKS:
            level, ref, tech, text = CHECKS[pid]
            checks.append({
                "property_id": pid,
                "quick_cmd": f"./check {pid} --tier quick",
                "thorough_cmd": f"./check {pid} --tier thorough",
                "evidence_file": f"/verif/evidence/{pid}.json",
                "replay_cmd_template": f"./check {pid} --replay {{path}}",
                "engine": "tlc",
                "level_claimed": {"category": level, "text": text, "design_ref": ref},
                "level_note": LEVEL_NOTE,
                "technique": tech,
            })
        else:
            na.append({"property_id": pid, "reason": NOT_YET.get(pid, "check not built yet in this round (see DESIGN.md section 6 for the plan)")})
    man = {
        "version": 1,
        "setup_cmd": "./setup.sh",
        "hooks": {
            "guard": "FLOWPATHS_VERIF",
            "enable": "FLOWPATHS_VERIF=1 in the environment of the harness processes (set by lib/vlib.py); the library is "
                      "imported from /repo's working tree on every run, nothing is built",
            "baseline_off_cmd": "cd /repo && /venv/bin/python -m pytest -ra -q -p no:cacheprovider --timeout=900 --continue-on-collection-errors",
            "source_commits": [],
            "add_only": True,
        },
        "engines": [{"name": "tlc", "path": "/verif/check", "serves_properties": sorted(CHECKS),
                     "kind_free_text": "explicit TLA+ specification (spec/*.tla) checked with TLC; conformance by TLC trace "
                                       "validation of executions of the real code and by replaying TLC-generated inputs/behaviours"}],
        "checks": checks,
        "not_applicable": na,
        "notes": "See DESIGN.md. Known findings: known_findings.jsonl. Seeded mutants: seeded/.",
    }
    with open(os.path.join(HERE, "MANIFEST.json"), "w") as f:
        json.dump(man, f, indent=1)
    print(f"{len(checks)} checks, {len(na)} not_applicable")


if __name__ == "__main__":
    main()
