#!/bin/bash
# Which lines of the library do the drivers of the quick checks execute?  (development aid; not a registered check)
# usage: tools/coverage_report.sh [ids...]   -> report in .scratch/coverage.txt
cd "$(dirname "$0")/.."
D=$(pwd)/.scratch/cov; rm -rf "$D"; mkdir -p "$D"
ids=${@:-C01 C02 C03 C04 C05 C06 C07 C08 C09 C10 C11 C12 C13 C14 C15 C16 C17 C18 C19 C20}
for i in $ids; do VERIF_COVERAGE=$D ./check $i >/dev/null 2>&1; echo "$i rc=$?"; done
cd "$D" && /venv/bin/python -m coverage combine --data-file="$D/all" "$D"/cov.* >/dev/null 2>&1
/venv/bin/python -m coverage report --data-file="$D/all" -m --include='*/flowpaths/*' > "$D/../coverage.txt" 2>&1
tail -40 "$D/../coverage.txt"
