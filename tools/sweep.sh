#!/bin/sh
# tools/sweep.sh <seed...> : run every quick check with each seed on the current tree; print one line per check
cd "$(dirname "$0")/.."
for s in "$@"; do
  for i in 01 02 03 04 05 06 07 08 09 10 11 12 13 14 15 16 17 18 19 20; do
    out=$(VERIF_SEED=$s ./check C$i --tier quick 2>&1)
    rc=$?
    echo "seed=$s C$i rc=$rc $(echo "$out" | grep -E '^C[0-9]+:' | tail -1) $(echo "$out" | grep -c '^VIOLATION') violations $(echo "$out" | grep '^MACHINERY' | head -1 | cut -c1-200)"
  done
done
