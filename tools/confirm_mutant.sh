#!/bin/sh
# tools/confirm_mutant.sh <worktree> : runs _mutant/demo.py with and without the change in the scratch worktree
WT=$1
cd $WT || exit 2
PYTHONPATH=$WT /venv/bin/python _mutant/demo.py >/tmp/w/demo_with.log 2>&1; A=$?
git stash -q
PYTHONPATH=$WT /venv/bin/python _mutant/demo.py >/tmp/w/demo_without.log 2>&1; B=$?
git stash pop -q
echo "$WT demo_with_change_rc=$A demo_without_change_rc=$B"
