"""Driver for NodeExpandedDiGraph (C11): build the expansion of a node-weighted graph and exercise the
translation helpers; records what the class built / returned."""
import sys
import os
import json

sys.path.insert(0, os.path.dirname(os.path.abspath(__file__)))
from common import *  # noqa

_fp = None


def run_instance(inst):
    global _fp
    if _fp is None:
        _fp = import_flowpaths()
    fp = _fp
    import networkx as nx
    out = dict(inst)
    G = nx.DiGraph()
    for i, v in enumerate(inst["nodes"]):
        if inst["nw"][i] != NONE:
            G.add_node(v, flow=inst["nw"][i])
        else:
            G.add_node(v)
    for u, v in inst["edges"]:
        G.add_edge(u, v)
    out.update({"exc": "none", "x_nodes": [], "x_edges": [], "x_ign": [], "x_flow": [], "rt_paths": [], "rt_exc": "none",
                "x_elems": [], "x_cons": [], "x_starts": [], "x_ends": []})
    try:
        X = fp.NodeExpandedDiGraph(G, node_flow_attr="flow")
        out["x_nodes"] = sorted(X.nodes())
        out["x_edges"] = sorted([list(e) for e in X.edges()])
        out["x_ign"] = sorted([list(e) for e in set(X.edges_to_ignore)])
        out["x_flow"] = sorted([[u, v, int(d["flow"])] for u, v, d in X.edges(data=True) if "flow" in d])
        out["x_elems"] = [[v] + list(X.get_expanded_edge(v)) for v in inst["nodes"]] + \
                         [[u + "->" + v] + list(X.get_expanded_edge((u, v))) for u, v in inst["edges"]]
        out["x_starts"] = list(X.get_expanded_additional_starts(inst.get("qstarts", [])))
        out["x_ends"] = list(X.get_expanded_additional_ends(inst.get("qends", [])))
        cons_n = [list(p) for p in inst.get("paths", [])]
        out["x_cons"] = [[list(e) for e in c] for c in X.get_expanded_subpath_constraints(cons_n)] if cons_n else []
        cons_e = [[(p[i], p[i + 1]) for i in range(len(p) - 1)] for p in inst.get("paths", []) if len(p) >= 2]
        out["x_cons_e"] = [[list(e) for e in c] for c in X.get_expanded_subpath_constraints(cons_e)] if cons_e else []
        out["cons_e_src"] = [[list(e) for e in c] for c in cons_e]
        # round trip: expand each given node path to its expanded node sequence, condense back
        exp_paths = []
        for p in inst.get("paths", []):
            q = []
            for v in p:
                q += [v + ".0", v + ".1"]
            exp_paths.append(q)
        try:
            out["rt_paths"] = [list(p) for p in X.get_condensed_paths(exp_paths)]
        except BaseException as e:
            out["rt_exc"] = type(e).__name__
        # the values on the node-edges replaced by others (what a flow correction does), then condensed back
        try:
            for i, v in enumerate(inst["nodes"]):
                if inst["nw"][i] != NONE:
                    a, b = X.get_expanded_edge(v)
                    X[a][b]["flow"] = inst["nw2"][i]
            Cg = X.get_condensed_graph()
            out["cg_nodes"] = sorted(str(v) for v in Cg.nodes())
            out["cg_edges"] = sorted([str(a), str(b)] for a, b in Cg.edges())
            out["cg_flow"] = sorted([str(v), int(d["flow"])] for v, d in Cg.nodes(data=True) if "flow" in d)
        except BaseException as e:
            out["cg_exc"] = type(e).__name__
    except BaseException as e:
        out["exc"] = type(e).__name__
        out["msg"] = str(e)[:150]
    for k_, d_ in (("cg_exc", "none"), ("cg_nodes", []), ("cg_edges", []), ("cg_flow", [])):
        out.setdefault(k_, d_)
    out.setdefault("x_cons_e", [])
    out.setdefault("cons_e_src", [])
    return out


def main():
    src, dst = sys.argv[1], sys.argv[2]
    insts = read_ndjson(src)
    res = run_pool("drive_nodeexp", "run_instance", insts, limit_s=60)
    bad = [r for r in res if "harness_error" in r]
    if bad:
        sys.stderr.write("HARNESS ERROR: " + json.dumps(bad[0])[:2000] + "\n")
        sys.exit(2)
    write_ndjson(dst, res)


if __name__ == "__main__":
    main()
