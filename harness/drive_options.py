"""Driver for the solver wrapper's configuration (C13): construct a SolverWrapper - directly or through a model - with the given
options and read the backend's option values back.  No judgement here."""
import sys
import os

sys.path.insert(0, os.path.dirname(os.path.abspath(__file__)))
from common import *  # noqa

_fp = None
NAMES = ("mip_rel_gap", "mip_abs_gap", "mip_feasibility_tolerance", "primal_feasibility_tolerance")


def run_instance(inst):
    global _fp
    if _fp is None:
        _fp = import_flowpaths()
    fp = _fp
    import networkx as nx
    out = dict(inst)
    sw = fp.utils.solverwrapper.SolverWrapper
    opts = {}
    tol = sw.tolerance
    if inst["tol_exp"] > 0:
        tol = 10.0 ** (-inst["tol_exp"])
        opts["tolerance"] = tol
    if inst["want_time_limit_ms"] >= 0:
        opts["time_limit"] = inst["want_time_limit_ms"] / 1000.0
    if inst["threads_given"]:
        opts["threads"] = inst["want_threads"]
    if inst["presolve_given"]:
        opts["presolve"] = inst["want_presolve"]
    out.update({"exc": "none", "ratios": {}, "time_limit_ms": NONE, "threads": NONE, "presolve": "?"})
    try:
        if inst["via"] == "wrapper":
            w = sw(**opts)
        else:
            G = nx.DiGraph()
            for u, v, f in [("s", "a", 2), ("a", "t", 2), ("s", "t", 1)]:
                G.add_edge(u, v, flow=f)
            cls = getattr(fp, inst["via"])
            kw = {"G": G, "flow_attr": "flow", "solver_options": opts}
            if not inst["via"].startswith("Min"):
                kw["k"] = 2
            if inst["via"] == "kFlowDecomp":
                kw["optimization_options"] = {"optimize_with_greedy": False}
            w = cls(**kw).solver
            if w is None:
                raise RuntimeError("model has no solver")
        h = w.solver
        out["ratios"] = {n: int(round(h.getOptionValue(n)[1] / tol * 1000)) for n in NAMES}
        tl = h.getOptionValue("time_limit")[1]
        out["time_limit_ms"] = -1 if tl == float("inf") else int(round(tl * 1000))
        out["threads"] = int(h.getOptionValue("threads")[1])
        out["presolve"] = str(h.getOptionValue("presolve")[1])
    except BaseException as e:
        out["exc"] = type(e).__name__ + ": " + str(e)[:100]
    return out


if __name__ == "__main__":
    src, dst = sys.argv[1], sys.argv[2]
    insts = read_ndjson(src)
    res = run_pool("drive_options", "run_instance", insts, limit_s=60)
    bad = [r for r in res if isinstance(r, dict) and "harness_error" in r]
    if bad:
        sys.stderr.write("HARNESS ERROR: " + json.dumps(bad[0])[:1500] + "\n")
        sys.exit(2)
    write_ndjson(dst, res)
