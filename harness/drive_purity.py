"""Driver for C18: replays a TLC-generated history of constructions / solves sharing caller-owned argument objects,
dumps every pooled object after every call and records each model's result next to the result of the same
construction in a fresh, isolated history."""
import sys
import os
import json
import copy
import hashlib

sys.path.insert(0, os.path.dirname(os.path.abspath(__file__)))
from common import *  # noqa

_fp = None
CLASSES = [("MinFlowDecomp", {}), ("kFlowDecomp", {"k": 3}), ("kMinPathError", {"k": 3}), ("kLeastAbsErrors", {"k": 3}),
           ("kPathCover", {"k": 3}), ("MinPathCover", {}), ("MinFlowDecompCycles", {}), ("kFlowDecompCycles", {"k": 3}),
           ("kMinPathErrorCycles", {"k": 3}), ("kLeastAbsErrorsCycles", {"k": 3}), ("kPathCoverCycles", {"k": 3}),
           ("MinPathCoverCycles", {}), ("kFlowDecomp", {"k": 3, "solution_weights_superset": [1, 2, 3, 4]}),
           ("kLeastAbsErrors", {"k": 2, "solution_weights_superset": [1, 2, 3]}),
           # node-weighted use of the same caller-owned graphs, with a length attribute that some edges lack
           ("kFlowDecomp", {"k": 3, "flow_attr_origin": "node", "length_attr": "length"}),
           ("kMinPathError", {"k": 3, "flow_attr_origin": "node", "length_attr": "length"}),
           # elements ignored by a percentile of their values: the model derives a list of its own (an ignore list passed as well is
           # a documented error unless it is empty)
           ("kMinPathErrorCycles", {"k": 3, "elements_to_ignore_percentile": 50})]
COVER = {"kPathCover", "MinPathCover", "kPathCoverCycles", "MinPathCoverCycles"}


def make_pool():
    import networkx as nx
    g1 = nx.DiGraph()
    for u, v, f in [("a", "b", 4), ("b", "c", 3), ("b", "d", 1), ("c", "e", 3), ("d", "e", 1), ("a", "c", 0)]:
        g1.add_edge(u, v, flow=f)
    g1.remove_edge("a", "c")
    g2 = nx.DiGraph()
    for u, v, f in [("a", "b", 5), ("b", "c", 2), ("b", "d", 3), ("c", "d", 2), ("d", "e", 5)]:
        g2.add_edge(u, v, flow=f)
    # node weights (through-flow) and a length on some elements only, for the node-weighted class variants
    for g in (g1, g2):
        for v in g.nodes():
            g.nodes[v]["flow"] = max(sum(d["flow"] for _, _, d in g.in_edges(v, data=True)),
                                     sum(d["flow"] for _, _, d in g.out_edges(v, data=True)))
        g.nodes["b"]["length"] = 2
        g["a"]["b"]["length"] = 1
    g3 = g1.copy()
    g3["b"]["d"]["flow"] = -1            # invalid unless that edge is ignored / has error scale 0
    return {"g1": g1, "g2": g2, "g3": g3, "e1": {("b", "d"): 0}, "o1": {}, "o3": {"use_subgraph_scanning_lowerbound": True},
            "o4": {"optimize_with_safety_as_subset_constraints": True}, "c0": [], "i0": [], "o2": {"optimize_with_safe_paths": False, "optimize_with_safe_zero_edges": False},
            "s1": {"threads": 1}, "c1": [[("a", "b"), ("b", "c")]], "i1": [("b", "d")],
            "t1": [("a", "b")]}      # caller-owned list of trusted edges, handed to every class that accepts one


def dump(o):
    import networkx as nx
    if isinstance(o, nx.DiGraph):
        d = {"n": sorted((str(v), sorted((str(k), repr(x)) for k, x in a.items())) for v, a in o.nodes(data=True)),
             "e": sorted((str(u), str(v), sorted((str(k), repr(x)) for k, x in a.items())) for u, v, a in o.edges(data=True)),
             "g": sorted((str(k), repr(v)) for k, v in o.graph.items())}
        s = json.dumps(d, sort_keys=True)
    else:
        s = repr(sorted(o.items(), key=lambda t: str(t[0]))) if isinstance(o, dict) else repr(o)
    return hashlib.sha1(s.encode()).hexdigest()[:12]


def build(fp, cls_idx, pool, g, o, s, c, i, e="omit"):
    if hasattr(fp.MinFlowDecomp, "subgraph_lowerbound_size"):
        fp.MinFlowDecomp.subgraph_lowerbound_size = 2      # (public class attribute) a window small enough to scan the pooled graphs
    name, extra = CLASSES[cls_idx - 1]
    cyc = name.endswith("Cycles")
    kw = {"G": pool[g]}
    if name not in COVER:
        kw["flow_attr"] = "flow"
        kw["weight_type"] = int
    kw.update(copy.deepcopy(extra))
    if o != "omit":
        kw["optimization_options"] = pool[o]
    if s != "omit":
        kw["solver_options"] = pool[s]
    if c != "omit":
        kw["subset_constraints" if cyc else "subpath_constraints"] = pool[c]
    if i != "omit" and kw.get("flow_attr_origin") != "node":      # (the pooled ignore list names edges)
        kw["elements_to_ignore"] = pool[i]
    if e != "omit" and (name.startswith("kLeastAbs") or name.startswith("kMinPathError")) and kw.get("flow_attr_origin") != "node":
        kw["error_scaling"] = pool[e]
    import inspect
    if "trusted_edges_for_safety" in inspect.signature(getattr(fp, name).__init__).parameters:
        kw["trusted_edges_for_safety"] = pool["t1"]
    return getattr(fp, name)(**kw)


def result_of(model):
    out = {"solved": False, "obj": NONE, "count": NONE, "exc": "none"}
    try:
        out["solved"] = bool(model.is_solved())
        if out["solved"]:
            sol = model.get_solution()
            key = "walks" if (isinstance(sol, dict) and "walks" in sol) else "paths"
            out["count"] = len(sol[key]) if isinstance(sol, dict) and sol.get(key) is not None else NONE
            out["obj"] = fx(model.get_objective_value())
    except BaseException as e:
        out["exc"] = type(e).__name__
    return out


def run_one(fp, cls_idx, pool, args):
    """construct + solve (+ get twice, + solve again) -> result record."""
    r = {"ctor_exc": "none", "solved": False, "obj": NONE, "count": NONE, "get_exc": "none", "again_same": True, "resolve_same": True}
    try:
        m = build(fp, cls_idx, pool, *args)
    except BaseException as e:
        r["ctor_exc"] = type(e).__name__
        return r, None
    try:
        m.solve()
    except BaseException as e:
        r["ctor_exc"] = "solve:" + type(e).__name__
        return r, m
    a = result_of(m)
    b = result_of(m)
    r.update({"solved": a["solved"], "obj": a["obj"], "count": a["count"], "get_exc": a["exc"]})
    r["again_same"] = (a == b)
    return r, m


def run_instance(inst):
    global _fp
    if _fp is None:
        _fp = import_flowpaths()
    fp = _fp
    pool = make_pool()
    dump0 = {k: dump(v) for k, v in pool.items()}
    slots = {}
    events = []
    for op in inst["ops"]:
        ev = {"op": op[0], "m": op[1], "res": None, "ref": None}
        if op[0] == "construct":
            _, m, cls, g, o, s, c, i, e = op
            res, model = run_one(fp, cls, pool, (g, o, s, c, i, e))
            slots[m] = (model, res)
            # the same construction in a fresh, isolated history: fresh copies of the argument values in a FRESH PROCESS
            # (computed once per distinct construction before the histories run, see main)
            ref = _REFS.get(json.dumps([cls, g, o, s, c, i, e]))
            if ref is None:
                ref, _ = run_one(fp, cls, make_pool(), (g, o, s, c, i, e))
            ev["res"], ev["ref"] = res, ref
            ev["cls"] = CLASSES[cls - 1][0]
            ev["args"] = [g, o, s, c, i, e]
        elif op[0] == "solve":
            model, res = slots.get(op[1], (None, None))
            if model is not None:
                try:
                    model.solve()
                    again = result_of(model)
                    ev["res"] = dict(res, resolve_same=(again["solved"] == res["solved"] and again["obj"] == res["obj"] and again["count"] == res["count"]))
                except BaseException as e:
                    # a repeated solve() that fails exactly as the first one did reproduces the first outcome
                    same = res.get("ctor_exc") == "solve:" + type(e).__name__
                    ev["res"] = dict(res, resolve_same=same, resolve_exc=type(e).__name__)
        cur = {k: dump(v) for k, v in pool.items()}
        ev["changed"] = sorted(k for k in cur if cur[k] != dump0[k])
        if ev["res"] is None:
            ev["res"] = {"ctor_exc": "skip", "solved": False, "obj": NONE, "count": NONE, "get_exc": "none", "again_same": True, "resolve_same": True}
        if ev["ref"] is None:
            ev["ref"] = ev["res"]
        ev.setdefault("cls", "-")
        ev.setdefault("args", [])
        events.append(ev)
    out = dict(inst)
    out["events"] = events
    return out


_REFS = {}


def _ref_task(key):
    global _fp
    if _fp is None:
        _fp = import_flowpaths()
    cls, g, o, s, c, i, e = json.loads(key)
    try:
        ref, _ = run_one(_fp, cls, make_pool(), (g, o, s, c, i, e))
    except BaseException as ex:      # harness failure: fall back to the in-process reference
        return key, None
    return key, ref


def main():
    src, dst = sys.argv[1], sys.argv[2]
    insts = read_ndjson(src)
    # reference results: every distinct construction once, each in a process of its own that has never run a solver
    # (process-global state of the solver library must not leak from the history into its own reference)
    import multiprocessing as mp
    keys = sorted({json.dumps(list(op[2:9])) for inst in insts for op in inst["ops"] if op[0] == "construct"})
    import drive_purity as _self      # the workers of run_pool import this module by name: fill ITS table (not __main__'s)
    with mp.get_context("fork").Pool(min(16, os.cpu_count() or 4), maxtasksperchild=1) as pl:
        for key, ref in pl.imap_unordered(_ref_task, keys, chunksize=1):
            if ref is not None:
                _self._REFS[key] = ref
    res = run_pool("drive_purity", "run_instance", insts, limit_s=180)
    bad = [r for r in res if "harness_error" in r]
    if bad:
        sys.stderr.write("HARNESS ERROR: " + json.dumps(bad[0])[:2000] + "\n")
        sys.exit(2)
    write_ndjson(dst, [r if "timeout" not in r else dict(r, events=[]) for r in res])


if __name__ == "__main__":
    main()
