"""Driver for the k-model lifecycle (C13, re-solve): one model object, a TLC-generated sequence of
solve / tighten / get calls, chosen solver runs answered with an injected inconclusive status.
Records what the object answered after every call; says nothing about what it should have answered."""
import sys
import os

sys.path.insert(0, os.path.dirname(os.path.abspath(__file__)))
from common import *  # noqa
import drive_models as D


def run_instance(inst):
    if D._fp is None:
        D._fp = import_flowpaths()
        D._install_tracer(D._fp)
    fp = D._fp
    D._trace.clear(); D._faults.clear(); D._ninv[0] = 0; D._percount.clear()
    out = dict(inst)
    out["events"] = []
    out["ctor_exc"] = "none"
    out["timeout"] = False
    G = D.build_graph(inst)
    kw = D.build_kwargs(inst, G)
    try:
        model = getattr(fp, inst["cls"])(**kw)
    except BaseException as e:
        out["ctor_exc"] = type(e).__name__
        return out
    syn = D.synthetic_names(model)
    last_routes = []
    for op in inst["ops"]:
        ev = {"op": op[0]}
        if op[0] == "solve":
            D._faults.clear()
            if op[1] != "none":
                D._faults[D._ninv[0] + 1] = op[1]
            before = D._ninv[0]
            ev.update({"ret": NONE, "exc": "none", "seen": "none"})
            try:
                r = model.solve()
                ev["ret"] = 1 if r is True else (0 if r is False else NONE)
            except BaseException as e:
                ev["exc"] = type(e).__name__
            ev["invoked"] = D._ninv[0] > before
            if ev["invoked"]:
                t = D._trace[-1]
                ev["seen"] = "custom_timeout" if t[2] == "custom_timeout" else t[4]
            try:
                ev["solved"] = bool(model.is_solved())
            except BaseException:
                ev["solved"] = False
        elif op[0] == "tighten":
            # forbid the first route the object last delivered (on every layer): sum of its edge variables <= len - 1
            route = last_routes[0] if last_routes else []
            ev["route"] = list(route)
            if route:
                g = model.G
                inner = [(route[i], route[i + 1]) for i in range(len(route) - 1)]
                edges = [(g.source, route[0])] + inner + [(route[-1], g.sink)]
                edges = [e for e in edges if (e[0], e[1], 0) in model.edge_vars]
                for i in range(model.k):
                    model.solver.add_constraint(model.solver.quicksum(model.edge_vars[(u, v, i)] for (u, v) in edges) <= len(edges) - 1,
                                                name=f"verif_forbid_{len(out['events'])}_{i}")
        elif op[0] == "get":
            ev.update({"sol_exc": "none", "obj_exc": "none", "routes": []})
            try:
                sol = model.get_solution()
                o = {}
                D.observe_solution(sol, syn, o)
                ev["routes"] = o.get("routes", [])
                last_routes = [r for r in ev["routes"] if r]
            except BaseException as e:
                ev["sol_exc"] = type(e).__name__
            try:
                model.get_objective_value()
            except BaseException as e:
                ev["obj_exc"] = type(e).__name__
            try:
                ev["solved"] = bool(model.is_solved())
            except BaseException:
                ev["solved"] = False
        out["events"].append(ev)
    return out


def timed_out(inst):
    out = dict(inst)
    out.update({"timeout": True, "ctor_exc": "none", "events": []})
    return out


if __name__ == "__main__":
    src, dst = sys.argv[1], sys.argv[2]
    limit = float(sys.argv[3]) if len(sys.argv) > 3 else 60.0
    insts = read_ndjson(src)
    res = run_pool("drive_kmodel", "run_instance", insts, limit_s=limit, on_timeout=timed_out)
    bad = [r for r in res if isinstance(r, dict) and "harness_error" in r]
    if bad:
        sys.stderr.write("HARNESS ERROR: " + json.dumps(bad[0])[:1500] + "\n")
        sys.exit(2)
    write_ndjson(dst, res)
