"""Driver for the safety computations (C06): direct calls of the public safety functions on the s-t graph classes."""
import sys
import os
import json

sys.path.insert(0, os.path.dirname(os.path.abspath(__file__)))
from common import *  # noqa

_fp = None


def ren(x, syn):
    if isinstance(x, str):
        return syn.get(x, x)
    if isinstance(x, (list, tuple)):
        return [ren(y, syn) for y in x]
    return x


def run_instance(inst):
    global _fp
    if _fp is None:
        _fp = import_flowpaths()
    fp = _fp
    import networkx as nx
    from flowpaths.utils import safetypathcovers as spc, safetypathcoverscycles as spcc, safetyflowdecomp as sfd
    out = dict(inst)
    G = nx.DiGraph()
    G.add_nodes_from(inst["nodes"])
    ew = inst.get("ew") or []
    for i, (u, v) in enumerate(inst["edges"]):
        if i < len(ew) and ew[i] != NONE:
            G.add_edge(u, v, flow=ew[i])
        else:
            G.add_edge(u, v)
    out.update({"exc": "none", "seqs": [], "aug_edges": [], "slots": [], "zero": [], "one": []})
    try:
        fn = inst["fn"]
        if fn == "flow_safe_paths":
            seqs = sfd.compute_flow_decomp_safe_paths(G=G, flow_attr="flow")
            out["seqs"] = [[list(e) for e in s] for s in seqs]
            return out
        if inst["kind"] == "dag":
            H = fp.stDAG(G, additional_starts=list(inst.get("starts", [])), additional_ends=list(inst.get("ends", [])))
        else:
            H = fp.stDiGraph(G, additional_starts=list(inst.get("starts", [])), additional_ends=list(inst.get("ends", [])))
        syn = {H.source: "S*", H.sink: "T*"}
        inv = {"S*": H.source, "T*": H.sink}
        out["aug_edges"] = sorted(ren([list(e) for e in H.edges()], syn))
        items = [[tuple(inv.get(x, x) for x in e) for e in it] for it in inst["items"]]
        single = [it[0] for it in items if len(it) == 1]
        if fn == "safe_paths":
            seqs = spc.safe_paths(G=H, edges_to_cover=single, no_duplicates=False, threads=1)
        elif fn == "safe_sequences":
            arg = [it[0] if len(it) == 1 else list(it) for it in items]
            seqs = spc.safe_sequences(G=H, edges_or_subpath_constraints_to_cover=arg, no_duplicates=False, threads=2)
        elif fn == "dominators":
            seqs = spcc.maximal_safe_sequences_via_dominators(G=H, X=set(single))
        elif fn == "dominators+incompatible":
            seqs = spcc.maximal_safe_sequences_via_dominators(G=H, X=set(single))
            slots = H.get_longest_incompatible_sequences(seqs) if seqs else []
            out["slots"] = ren([[list(e) for e in s] for s in slots], syn)
        else:
            raise RuntimeError("unknown fn " + fn)
        out["seqs"] = ren([[list(e) for e in s] for s in seqs], syn)
    except BaseException as e:
        out["exc"] = type(e).__name__
        out["msg"] = str(e)[:150]
    return out


def main():
    src, dst = sys.argv[1], sys.argv[2]
    insts = read_ndjson(src)
    res = run_pool("drive_safety", "run_instance", insts, limit_s=60)
    bad = [r for r in res if "harness_error" in r]
    if bad:
        sys.stderr.write("HARNESS ERROR: " + json.dumps(bad[0])[:2000] + "\n")
        sys.exit(2)
    write_ndjson(dst, res)


if __name__ == "__main__":
    main()
