"""Driver for C20: renders the TLC-generated line sequences to a file, calls graphutils.read_graphs, records what came back."""
import sys
import os
import json
import tempfile

sys.path.insert(0, os.path.dirname(os.path.abspath(__file__)))
from common import *  # noqa

_fp = None


def run_instance(inst):
    global _fp
    if _fp is None:
        _fp = import_flowpaths()
    fp = _fp
    out = dict(inst)
    fd, path = tempfile.mkstemp(suffix=".graph", dir=os.environ.get("VERIF_SCRATCH"))
    with os.fdopen(fd, "w") as f:
        f.write("\n".join(inst["lines"]) + "\n")
    out.update({"exc": "none", "obs": []})
    try:
        gs = fp.graphutils.read_graphs(path)
        for g in gs:
            out["obs"].append({
                "id": str(g.graph.get("id")),
                "edges": sorted([str(u), str(v), fx(d.get("flow")), tname(d.get("flow"))] for u, v, d in g.edges(data=True)),
                "constraints": [[[str(a), str(b)] for a, b in c] for c in g.graph.get("constraints", [])],
                "has_constraints": "constraints" in g.graph,
                "n": g.graph.get("n", NONE), "m": g.graph.get("m", NONE), "w": g.graph.get("w", NONE),
                "nodes": sorted(str(v) for v in g.nodes())})
    except BaseException as e:
        out["exc"] = type(e).__name__
        out["msg"] = str(e)[:120]
    finally:
        os.remove(path)
    return out


def main():
    src, dst = sys.argv[1], sys.argv[2]
    insts = read_ndjson(src)
    res = run_pool("drive_graphfile", "run_instance", insts, limit_s=60)
    bad = [r for r in res if "harness_error" in r]
    if bad:
        sys.stderr.write("HARNESS ERROR: " + json.dumps(bad[0])[:2000] + "\n")
        sys.exit(2)
    write_ndjson(dst, res)


if __name__ == "__main__":
    main()
