"""Driver for the s-t graph classes and graph utilities (C09 width, C17 substrate queries).
One instance = one graph + a sequence of query operations (a history); one record = the answers."""
import sys
import os
import json
import time

sys.path.insert(0, os.path.dirname(os.path.abspath(__file__)))
from common import *  # noqa

_fp = None


def build(inst):
    import networkx as nx
    G = nx.DiGraph()
    for v in inst["nodes"]:
        G.add_node(v)
    ew = inst.get("ew")
    wden = inst.get("wden", 1)       # weights handed over as ew / wden (fractional flows); answers are reported in units of 1 / wden
    for i, (u, v) in enumerate(inst["edges"]):
        if ew is not None and len(ew) > i and ew[i] != NONE:
            G.add_edge(u, v, flow=(ew[i] if wden == 1 else ew[i] / wden))
            if inst.get("ew2"):
                G[u][v]["alt"] = inst["ew2"][i]      # a second weight attribute on the same graph
        else:
            G.add_edge(u, v)
    return G


def ren(x, syn):
    if isinstance(x, str):
        return syn.get(x, x)
    if isinstance(x, (list, tuple, set, frozenset)):
        return [ren(y, syn) for y in x]
    return x


def run_instance(inst):
    global _fp
    if _fp is None:
        _fp = import_flowpaths()
    fp = _fp
    out = dict(inst)
    G = build(inst)
    events = []
    out["ctor_exc"] = "none"
    try:
        if inst["kind"] == "dag":
            H = fp.stDAG(G, additional_starts=list(inst.get("starts", [])), additional_ends=list(inst.get("ends", [])))
        else:
            H = fp.stDiGraph(G, additional_starts=list(inst.get("starts", [])), additional_ends=list(inst.get("ends", [])))
    except BaseException as e:
        out["ctor_exc"] = type(e).__name__
        out["events"] = []
        return out
    syn = {H.source: "S*", H.sink: "T*"}
    inv = {"S*": H.source, "T*": H.sink}
    out["aug_edges"] = sorted(ren([list(e) for e in H.edges()], syn))
    for op in inst["ops"]:
        name = op[0]
        ev = {"op": name, "exc": "none", "arg": op[1:] , "ret": NONE, "rets": [], "rete": []}
        try:
            if name == "width":
                ign = [tuple(inv.get(x, x) for x in e) for e in op[1]]
                full = list(H.source_sink_edges) + ign
                w = H.get_width(edges_to_ignore=full)
                ev["ret"] = int(w) if w is not None else NONE
            elif name == "width_raw":         # the same query WITHOUT the synthetic edges in the ignore list (not judged: the
                ign = [tuple(inv.get(x, x) for x in e) for e in op[1]]      # property speaks about the convention above);
                w = H.get_width(edges_to_ignore=ign) if ign else H.get_width()   # it only warms whatever the object caches
                ev["ret"] = int(w) if w is not None else NONE
            elif name == "width_default":     # no argument at all: cached variant
                w = H.get_width()
                ev["ret"] = int(w) if w is not None else NONE
            elif name == "reach":
                v = inv.get(op[1], op[1])
                if inst["kind"] == "dag":
                    s = H.reachable_nodes_from[v]
                else:
                    s = H.nodes_reachable(v)
                ev["rets"] = sorted(ren(list(s), syn))
            elif name == "reaching":
                v = inv.get(op[1], op[1])
                if inst["kind"] == "dag":
                    s = H.nodes_reaching[v]
                else:
                    s = H.nodes_reaching(v)
                ev["rets"] = sorted(ren(list(s), syn))
            elif name == "reach_edges":      # stDAG only
                v = inv.get(op[1], op[1])
                ev["rete"] = sorted(ren([list(e) for e in H.reachable_edges_from[v]], syn))
            elif name == "reach_edges_rev":
                v = inv.get(op[1], op[1])
                ev["rete"] = sorted(ren([list(e) for e in H.reachable_edges_rev_from[v]], syn))
            elif name == "is_scc_edge":
                u, v = inv.get(op[1], op[1]), inv.get(op[2], op[2])
                ev["ret"] = 1 if H.is_scc_edge(u, v) else 0
            elif name == "maxreach":
                d = H.compute_edge_max_reachable_value(op[1] if len(op) > 1 else "flow")
                ev["rete"] = sorted([ren(k[0], syn), ren(k[1], syn), fx(v)] for k, v in d.items())
            elif name == "antichain":
                wf = {tuple(inv.get(x, x) for x in (e[0], e[1])): e[2] for e in op[1]}
                if op[1]:
                    cost, ac = H.compute_max_edge_antichain(get_antichain=True, weight_function=wf)
                    cost2 = H.compute_max_edge_antichain(get_antichain=False, weight_function=wf)
                else:
                    cost, ac = H.compute_max_edge_antichain(get_antichain=True)
                    cost2 = H.compute_max_edge_antichain(get_antichain=False)
                ev["ret"] = int(cost)
                ev["ret2"] = int(cost2)
                ev["rete"] = sorted(ren([list(e) for e in ac], syn))
            elif name == "decompose":
                paths, weights = H.decompose_using_max_bottleneck("flow")
                ev["paths"] = [list(p) for p in paths]
                wd = inst.get("wden", 1)
                ev["weights"] = [int(round(w * wd)) if abs(w * wd - round(w * wd)) < 1e-9 else NONE for w in weights]
            elif name == "bottleneck":
                b, p = fp.graphutils.max_bottleneck_path(G, "flow")
                wd = inst.get("wden", 1)
                ev["ret"] = NONE if b is None else (int(round(b * wd)) if abs(b * wd - round(b * wd)) < 1e-9 else NONE)
                ev["paths"] = [list(p)] if p is not None else []
            elif name == "scc_stats":          # stDiGraph: statistics of the strongly connected components, counted in edges
                ev["ret"] = int(H.get_number_of_nontrivial_SCCs())
                ev["ret2"] = int(H.get_size_of_largest_SCC())
                ev["ret3"] = int(H.get_avg_size_of_non_trivial_SCC())
            elif name == "flow_width":         # stDAG: fewest source-to-sink paths covering every inner edge, none more often than its flow
                ign = [tuple(inv.get(x, x) for x in e) for e in op[1]]
                ev["ret"] = int(H.get_flow_width("flow", edges_to_ignore=ign))
            elif name == "max_flow":           # largest flow value over the non-ignored edges (synthetic edges carry none: ignored)
                ign = set(H.source_sink_edges) | {tuple(inv.get(x, x) for x in e) for e in op[1]}
                ev["ret"] = fx(H.get_max_flow_value_and_check_non_negative_flow("flow", ign))
            elif name == "nonzero":
                ign = {tuple(inv.get(x, x) for x in e) for e in op[1]}
                ev["rete"] = sorted(ren([list(e) for e in H.get_non_zero_flow_edges("flow", ign)], syn))
            elif name == "conserves":
                ev["ret"] = 1 if fp.graphutils.check_flow_conservation(G, "flow") else 0
            elif name == "max_occurrence":
                # op: ["max_occurrence", seq (list of edges), paths (lists of nodes), lengths ([[u, v, len], ...] or [])]
                seq = [tuple(e) for e in op[1]]
                lens = {(e[0], e[1]): e[2] for e in op[3]}
                ev["ret"] = int(fp.graphutils.max_occurrence(seq, [list(p) for p in op[2]], edge_lengths=lens) if lens
                                else fp.graphutils.max_occurrence(seq, [list(p) for p in op[2]]))
            else:
                ev["exc"] = "UnknownOp"
        except BaseException as e:
            ev["exc"] = type(e).__name__
            ev["msg"] = str(e)[:120]
        ev.setdefault("paths", [])
        ev.setdefault("weights", [])
        ev.setdefault("ret2", NONE)
        ev.setdefault("ret3", NONE)
        events.append(ev)
    out["events"] = events
    out["timeout"] = False
    return out


def timed_out(inst):
    out = dict(inst)
    out.update({"timeout": True, "events": [], "ctor_exc": "none", "aug_edges": []})
    return out


def main():
    src, dst = sys.argv[1], sys.argv[2]
    limit = float(sys.argv[3]) if len(sys.argv) > 3 else 60.0
    insts = read_ndjson(src)
    res = run_pool("drive_substrate", "run_instance", insts, limit_s=limit, on_timeout=timed_out)
    bad = [r for r in res if "harness_error" in r]
    if bad:
        sys.stderr.write("HARNESS ERROR: " + json.dumps(bad[0])[:2000] + "\n")
        sys.exit(2)
    write_ndjson(dst, res)


if __name__ == "__main__":
    main()
