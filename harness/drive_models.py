"""Generic driver: one JSON instance -> construct / solve / query one flowpaths model -> one
observation record.  No judgement is made here (see common.py docstring)."""
import sys
import os
import json
import time

sys.path.insert(0, os.path.dirname(os.path.abspath(__file__)))
from common import *  # noqa

_fp = None
_trace = []          # solver-invocation events of the current task
_faults = {}         # invocation number (1-based) -> injected status
_ninv = [0]
_percount = {}


def _install_tracer(fp):
    """Wrap SolverWrapper.optimize / get_model_status *from outside* (no repo change): logs every
    solver invocation and lets a fault schedule replace the status of the j-th invocation."""
    sw = fp.utils.solverwrapper.SolverWrapper
    if getattr(sw, "_verif_wrapped", False):
        return
    orig_opt = sw.optimize
    orig_status = sw.get_model_status

    def get_model_status(self, raw=False):
        inj = getattr(self, "_verif_inj", None)
        if inj and inj != "custom_timeout":
            return inj
        return orig_status(self, raw)

    def _owner():
        owner = "main"
        f = sys._getframe(2)
        while f is not None:
            fn = f.f_code.co_filename
            if fn.endswith("mingenset.py"):
                owner = "mingenset"
            if f.f_code.co_name == "_solve_with_given_weights":
                owner = "given"
            f = f.f_back
        return owner

    def optimize(self):
        _ninv[0] += 1
        owner = _owner()
        _percount[owner] = _percount.get(owner, 0) + 1
        self._verif_inv = _ninv[0]
        # a fault is addressed either by absolute invocation number or by "<owner>:<ordinal>"
        inj = _faults.get(self._verif_inv) or _faults.get(f"{owner}:{_percount[owner]}")
        self._verif_inj = inj
        if isinstance(inj, str) and inj.startswith("overrun:"):
            # the backend's run is made to last <secs> longer than it does (it finishes its work, then lingers): nothing is
            # injected into the statuses - whether the library's own custom timeout notices the overrun is what is observed
            secs = float(inj.split(":")[1])
            self._verif_inj = None
            hc = type(self.solver)
            inner = hc.optimize

            def slow(s_, *a, **k):
                r_ = inner(s_, *a, **k)
                time.sleep(secs)
                return r_
            hc.optimize = slow
            try:
                r = orig_opt(self)
            finally:
                if "optimize" in hc.__dict__:
                    delattr(hc, "optimize")
        else:
            r = orig_opt(self)
        if inj == "custom_timeout":
            self.did_timeout = True
        try:
            st = orig_status(self)
        except Exception as e:  # pragma: no cover
            st = "EXC_" + type(e).__name__
        seen = get_model_status(self)
        _trace.append([self._verif_inv, str(st), str(inj) if inj else "none", owner, str(seen)])
        return r

    sw.optimize = optimize
    sw.get_model_status = get_model_status
    sw._verif_wrapped = True


DAG_CLASSES = {"MinFlowDecomp", "kFlowDecomp", "kMinPathError", "kLeastAbsErrors", "kPathCover", "MinPathCover"}
CYC_CLASSES = {"MinFlowDecompCycles", "kFlowDecompCycles", "kMinPathErrorCycles", "kLeastAbsErrorsCycles",
               "kPathCoverCycles", "MinPathCoverCycles"}
COVER_CLASSES = {"kPathCover", "MinPathCover", "kPathCoverCycles", "MinPathCoverCycles"}


def build_graph(inst):
    import networkx as nx
    num, den = inst.get("num", 1), inst.get("den", 1)
    as_float = inst.get("wt", "int") == "float" and inst.get("float_data", True)
    G = nx.DiGraph()
    if "gid" in inst:
        G.graph["id"] = inst["gid"]
    nw = inst.get("nw")
    n_order, e_order = list(range(len(inst["nodes"]))), list(range(len(inst["edges"])))
    if inst.get("order"):
        # the same graph handed over in another insertion order of its nodes and edges (presentation only: the record, and
        # with it everything the specification sees, is unchanged)
        import random as _random
        _r = _random.Random(inst["order"])
        _r.shuffle(n_order)
        _r.shuffle(e_order)
    for i in n_order:
        v = inst["nodes"][i]
        if nw and nw[i] != NONE:
            G.add_node(v, flow=val_of(nw[i], num, den, as_float))
        else:
            G.add_node(v)
        if inst.get("nlen") and inst["nlen"][i] != NONE:
            G.nodes[v]["length"] = inst["nlen"][i]
    ew = inst.get("ew")
    el = inst.get("elen")
    for i in e_order:
        u, v = inst["edges"][i]
        attrs = {}
        if ew and ew[i] != NONE:
            attrs["flow"] = val_of(ew[i], num, den, as_float)
        if el and el[i] != NONE:
            attrs["length"] = el[i]
        G.add_edge(u, v, **attrs)
    return G


def elem(x):
    """JSON element -> python graph element (edge tuple or node string)."""
    if isinstance(x, list):
        return tuple(x)
    return x


def build_kwargs(inst, G):
    cls = inst["cls"]
    kw = {"G": G}
    cyc = cls in CYC_CLASSES
    cover = cls in COVER_CLASSES
    if not cover:
        kw["flow_attr"] = "flow"
    if "k" in inst:
        kw["k"] = inst["k"]
    if inst.get("k_none"):
        kw["k"] = None       # explicit k=None: the model chooses k itself
    if "mode" in inst:
        kw["cover_type" if cover else "flow_attr_origin"] = inst["mode"]
    if "wt" in inst and not cover:
        kw["weight_type"] = {"int": int, "float": float}.get(inst["wt"], inst["wt"])
    if "cons" in inst:
        kw["subset_constraints" if cyc else "subpath_constraints"] = [[elem(e) for e in c] for c in inst["cons"]]
    if "cov" in inst:
        n, d = inst["cov"]
        kw["subset_constraints_coverage" if cyc else "subpath_constraints_coverage"] = (n / d) if d != 1 else float(n)
    if "covlen" in inst and inst["covlen"][0] > 0:
        n, d = inst["covlen"]
        kw["subpath_constraints_coverage_length"] = n / d
        kw["length_attr"] = "length"
    if inst.get("lenattr"):
        kw["length_attr"] = "length"          # lengths (elen / nlen) are meant to be used (path-length factors, ...)
    if "ign" in inst:
        kw["elements_to_ignore"] = [elem(e) for e in inst["ign"]]
    if "starts" in inst:
        kw["additional_starts"] = list(inst["starts"])
    if "ends" in inst:
        kw["additional_ends"] = list(inst["ends"])
    if "escale" in inst:
        kw["error_scaling"] = {elem(e): (n / d if d != 1 else n) for (e, n, d) in inst["escale"]}
    if "sws" in inst:
        num, den = inst.get("num", 1), inst.get("den", 1)
        kw["solution_weights_superset"] = [val_of(w, num, den, inst.get("wt") == "float") for w in inst["sws"]]
    if "plr" in inst:
        kw["path_length_ranges"] = [tuple(r) for r in inst["plr"]]
        kw["path_length_factors"] = [n / d if d != 1 else n for (n, d) in inst["plf"]]
    if inst.get("ignpct", -1) >= 0:
        kw["elements_to_ignore_percentile"] = inst["ignpct"]
    if inst.get("trustpct", -1) >= 0:
        kw["trusted_edges_for_safety_percentile"] = inst["trustpct"]
    if "opt" in inst:
        kw["optimization_options"] = dict(inst["opt"])
    so = {"threads": 1}
    so.update(inst.get("sopt", {}))
    if "tl" in inst:          # time limit in seconds as a fraction [num, den] (records carry integers only)
        so["time_limit"] = inst["tl"][0] / inst["tl"][1]
    if not inst.get("no_sopt"):
        kw["solver_options"] = so
    return kw


def rename(x, syn):
    if isinstance(x, str):
        return syn.get(x, x)
    if isinstance(x, (list, tuple)):
        return [rename(y, syn) for y in x]
    return x


def synthetic_names(model):
    syn = {}
    seen = set()
    stack = [model]
    while stack:
        m = stack.pop()
        if id(m) in seen or m is None:
            continue
        seen.add(id(m))
        for attr in ("G", "G_internal"):
            g = getattr(m, attr, None)
            if g is None:
                continue
            s, t = getattr(g, "source", None), getattr(g, "sink", None)
            if isinstance(s, str):
                syn[s] = "S*"
            if isinstance(t, str):
                syn[t] = "T*"
            gs, gt = getattr(g, "global_source_id", None), getattr(g, "global_sink_id", None)
            if isinstance(gs, str):
                syn[gs] = "GS*"; syn[gs + ".0"] = "GS*.0"; syn[gs + ".1"] = "GS*.1"
            if isinstance(gt, str):
                syn[gt] = "GT*"; syn[gt + ".0"] = "GT*.0"; syn[gt + ".1"] = "GT*.1"
            b = getattr(g, "base_graph", None)
            if b is not None:
                class _W:  # wrap to reuse loop
                    pass
                w = _W(); w.G = b; w.G_internal = None
                stack.append(w)
        for attr in ("fd_model", "model", "_given_weights_model"):
            stack.append(getattr(m, attr, None))
    return syn


def numlist(xs):
    vals, types = [], []
    for x in xs:
        vals.append(fx(x))
        types.append(tname(x))
    return vals, types


def observe_solution(sol, syn, out):
    if not isinstance(sol, dict):
        out["sol_kind"] = tname(sol)
        return
    out["sol_kind"] = "dict"
    out["sol_keys"] = sorted(str(k) for k in sol.keys())
    key = "walks" if "walks" in sol else "paths"
    routes = sol.get(key)
    out["routes_key"] = key if routes is not None else "none"
    out["routes"] = [rename([str(n) if not isinstance(n, str) else n for n in r], syn) for r in (routes or [])]
    out["routes_nonstr"] = any((not isinstance(n, str)) for r in (routes or []) for n in r)
    internal = sol.get("_paths_internal", sol.get("_walks_internal"))
    if internal is not None:
        out["routes_internal"] = [rename(list(r), syn) for r in internal]
    if "weights" in sol and sol["weights"] is not None:
        out["weights"], out["wtypes"] = numlist(sol["weights"])
        out["has_weights"] = True
    else:
        out["weights"], out["wtypes"] = [], []
        out["has_weights"] = "weights" in sol and False
        out["weights_none"] = "weights" in sol and sol["weights"] is None
    if "slacks" in sol and sol["slacks"] is not None:
        out["slacks"], out["stypes"] = numlist(sol["slacks"])
        out["has_slacks"] = True
    else:
        out["slacks"], out["stypes"] = [], []
        out["has_slacks"] = False
    if "scaled_slacks" in sol and sol["scaled_slacks"] is not None:
        out["sslacks"], _ = numlist(sol["scaled_slacks"])
        out["has_sslacks"] = True
    else:
        out["sslacks"] = []
        out["has_sslacks"] = False
    if "edge_errors" in sol and isinstance(sol["edge_errors"], dict):
        errs = []
        for k, v in sol["edge_errors"].items():
            if isinstance(k, tuple) and len(k) == 2:
                errs.append([rename(k[0], syn), rename(k[1], syn), fx(v), tname(v)])
        out["errs"] = errs
        out["has_errs"] = True
    else:
        out["errs"] = []
        out["has_errs"] = False


def edges_list(d, syn):
    """{(u,v,i): True} -> [[u,v,i],...]"""
    res = []
    for key in (d or {}):
        if isinstance(key, tuple) and len(key) == 3:
            res.append([rename(key[0], syn), rename(key[1], syn), int(key[2])])
    return sorted(res)


def run_instance(inst):
    """construct / solve / query according to inst['ops'] (default: the full happy-path protocol)."""
    global _fp
    if _fp is None:
        _fp = import_flowpaths()
        _install_tracer(_fp)
    fp = _fp
    _trace.clear()
    _faults.clear()
    _ninv[0] = 0
    _percount.clear()
    for k, v in (inst.get("faults") or {}).items():
        _faults[int(k) if str(k).isdigit() else k] = v
    out = dict(inst)
    t0 = time.time()
    if inst["cls"] == "MinGenSet":
        G = None
        kw = {"numbers": list(inst["numbers"]), "total": inst["total"],
              "weight_type": {"int": int, "float": float}[inst.get("wt", "int")], "solver_options": {"threads": 1}}
        for key in ("max_multiplicity", "lowerbound", "partition_constraints", "remove_complement_values", "remove_sums_of_two"):
            if key in inst:
                kw[key] = inst[key]
    elif inst["cls"] == "MinSetCover":
        G = None
        kw = {"universe": list(inst["universe"]), "subsets": [list(x) for x in inst["subsets"]], "solver_options": {"threads": 1}}
        if "subset_weights" in inst:
            kw["subset_weights"] = list(inst["subset_weights"])
    elif inst["cls"] == "MinErrorFlow":
        G = build_graph(inst)
        kw = {"G": G, "flow_attr": "flow", "solver_options": dict({"threads": 1}, **inst.get("sopt", {}))}
        if "mode" in inst:
            kw["flow_attr_origin"] = inst["mode"]
        if "wt" in inst:
            kw["weight_type"] = {"int": int, "float": float}[inst["wt"]]
        if "ign" in inst:
            kw["elements_to_ignore"] = [elem(e) for e in inst["ign"]]
        if "starts" in inst:
            kw["additional_starts"] = list(inst["starts"])
        if "ends" in inst:
            kw["additional_ends"] = list(inst["ends"])
        if "escale" in inst:
            kw["error_scaling"] = {elem(e): (n / d if d != 1 else n) for (e, n, d) in inst["escale"]}
        if "lam" in inst:
            kw["sparsity_lambda"] = inst["lam"][0] / inst["lam"][1]
        if "eps" in inst:
            kw["few_flow_values_epsilon"] = inst["eps"][0] / inst["eps"][1]
    elif inst["cls"] == "NumPathsOptimization":
        G = build_graph(inst)
        inner = dict(inst)
        inner["cls"] = inst["model_type"]
        inner.pop("k", None)
        kw = build_kwargs(inner, G)
        kw["model_type"] = getattr(fp, inst["model_type"])
        for key in ("stop_on_first_feasible", "stop_on_delta_abs", "min_num_paths", "max_num_paths"):
            if key in inst:
                kw[key] = inst[key]
    else:
        G = build_graph(inst)
        kw = build_kwargs(inst, G)
    cls = getattr(fp, inst["cls"])
    model = None
    _restore_scan = None
    if "scan_size" in inst and hasattr(fp.MinFlowDecomp, "subgraph_lowerbound_size"):
        # the window of the subgraph-scanning lower bound is a public class attribute (default 20): small values make the
        # scan real on small graphs
        _restore_scan = fp.MinFlowDecomp.subgraph_lowerbound_size
        fp.MinFlowDecomp.subgraph_lowerbound_size = int(inst["scan_size"])
    out.update({"ctor_exc": "none", "ctor_msg": "", "solve_ret": NONE, "solve_exc": "none", "solved": False,
                "sol_exc": "none", "routes": [], "weights": [], "wtypes": [], "slacks": [], "stypes": [],
                "sslacks": [], "errs": [], "obj": NONE, "obj_type": "none", "obj_exc": "none", "valid": NONE,
                "valid_exc": "none", "has_weights": False, "has_slacks": False, "has_errs": False,
                "has_sslacks": False, "got_solution": False, "routes_key": "none", "sol_kind": "none",
                "routes_nonstr": False, "pre_sol_exc": "none", "pre_obj_exc": "none", "k_model": NONE,
                "lb": NONE, "process_exit": False})
    try:
        model = cls(**kw)
    except SystemExit:
        out["ctor_exc"] = "SystemExit"
    except BaseException as e:
        out["ctor_exc"] = type(e).__name__
        out["ctor_msg"] = str(e)[:160]
    if model is not None:
        ops = inst.get("ops", ["solve", "get"])
        syn = synthetic_names(model)
        if "pre_get" in ops:   # getters before solve(): must raise (C13)
            try:
                r = model.get_solution()
                out["pre_sol_exc"] = "none"
                out["pre_sol_kind"] = tname(r)
            except BaseException as e:
                out["pre_sol_exc"] = type(e).__name__
            try:
                model.get_objective_value()
                out["pre_obj_exc"] = "none"
            except BaseException as e:
                out["pre_obj_exc"] = type(e).__name__
        if "solve" in ops:
            try:
                r = model.solve()
                out["solve_ret"] = 1 if r is True else (0 if r is False else NONE)
                out["solve_ret_type"] = tname(r)
            except SystemExit:
                out["solve_exc"] = "SystemExit"
                out["process_exit"] = True
            except BaseException as e:
                out["solve_exc"] = type(e).__name__
                out["solve_msg"] = str(e)[:160]
        if "resolve" in ops:      # the caller calls solve() once more on the same object, this time without injected faults
            out["retry_at"] = len(_trace)
            _faults.clear()
            try:
                r = model.solve()
                out["solve_ret"] = 1 if r is True else (0 if r is False else NONE)
                out["solve_ret_type"] = tname(r)
            except SystemExit:
                out["solve_exc"] = "SystemExit"
                out["process_exit"] = True
            except BaseException as e:
                out["solve_exc"] = type(e).__name__
                out["solve_msg"] = str(e)[:160]
        syn = synthetic_names(model)
        try:
            out["solved"] = bool(model.is_solved())
        except BaseException as e:
            out["solved"] = False
            out["is_solved_exc"] = type(e).__name__
        if "get" in ops:
            try:
                sol = model.get_solution()
                out["got_solution"] = sol is not None
                if isinstance(sol, dict) and "graph" in sol:       # MinErrorFlow
                    out["sol_kind"] = "errflow"
                    g = sol["graph"]
                    out["c_nodes"] = sorted(str(v) for v in g.nodes())
                    out["c_edges"] = sorted([str(u), str(v)] for u, v in g.edges())
                    if inst.get("mode", "edge") == "node":
                        out["c_vals"] = sorted([str(v), fx(d.get("flow")), tname(d.get("flow"))] for v, d in g.nodes(data=True))
                    else:
                        out["c_vals"] = sorted([str(u), str(v), fx(d.get("flow")), tname(d.get("flow"))] for u, v, d in g.edges(data=True))
                    out["c_error"] = fx(sol.get("error"))
                    out["c_obj"] = fx(sol.get("objective_value"))
                elif isinstance(sol, list):       # MinGenSet / MinSetCover return plain lists
                    out["sol_kind"] = "list"
                    out["sol_list"], out["sol_list_types"] = numlist(sol) if all(not isinstance(x, (list, tuple)) for x in sol) else ([], [])
                    if inst["cls"] == "MinSetCover":       # the same answer asked for as the subsets themselves
                        try:
                            out["sol_as_subsets"] = [list(x) for x in model.get_solution(as_subsets=True)]
                        except BaseException as e:
                            out["sol_as_subsets_exc"] = type(e).__name__
                else:
                    observe_solution(sol, syn, out)
            except SystemExit:
                out["sol_exc"] = "SystemExit"
            except BaseException as e:
                out["sol_exc"] = type(e).__name__
                out["sol_msg"] = str(e)[:160]
            # k-models let the caller keep or drop empty routes: both answers, to be compared layer by layer
            try:
                import inspect as _inspect
                _ps = _inspect.signature(model.get_solution).parameters
                _flag = "remove_empty_paths" if "remove_empty_paths" in _ps else ("remove_empty_walks" if "remove_empty_walks" in _ps else None)
                if _flag and out["sol_exc"] == "none":
                    for tag, val in (("keep", False), ("drop", True)):
                        o2 = {}
                        observe_solution(model.get_solution(**{_flag: val}), syn, o2)
                        out[tag + "_routes"] = o2.get("routes", [])
                        out[tag + "_weights"] = o2.get("weights", [])
                        out[tag + "_slacks"] = o2.get("slacks", [])
            except BaseException as e:
                out["keep_exc"] = type(e).__name__
            if "get2" in ops:   # second call must agree (C18)
                try:
                    sol2 = model.get_solution()
                    o2 = {}
                    observe_solution(sol2, syn, o2)
                    out["routes2"] = o2.get("routes", [])
                    out["weights2"] = o2.get("weights", [])
                except BaseException as e:
                    out["sol2_exc"] = type(e).__name__
            try:
                if not hasattr(model, "get_objective_value"):
                    raise AttributeError("no objective")
                ov = model.get_objective_value()
                out["obj"] = fx(ov)
                out["obj_type"] = tname(ov)
            except SystemExit:
                out["obj_exc"] = "SystemExit"
            except BaseException as e:
                out["obj_exc"] = type(e).__name__
            try:
                if not hasattr(model, "is_valid_solution"):
                    raise AttributeError("no validity check")
                v = model.is_valid_solution()
                out["valid"] = 1 if v is True else (0 if v is False else NONE)
            except SystemExit:
                out["valid_exc"] = "SystemExit"
            except BaseException as e:
                out["valid_exc"] = type(e).__name__
        km = getattr(model, "k", None)
        out["k_model"] = km if isinstance(km, int) else NONE
        # the per-walk edge repetition caps the walk models computed for themselves (observed internal state, used only to
        # attribute a violation to the known finding about these caps)
        eub = getattr(model, "edge_upper_bounds", None)
        if isinstance(eub, dict):
            import math as _m
            caps = []
            for (a_, b_), c_ in eub.items():
                try:
                    caps.append([rename(a_, syn), rename(b_, syn), int(_m.floor(float(c_) + 1e-9))])
                except Exception:
                    pass
            out["repcaps_obs"] = sorted(caps)
        if "safety" in ops:
            out["walks_to_fix"] = rename([[list(e) for e in w] for w in (getattr(model, "walks_to_fix", None) or [])], syn)
            out["paths_to_fix"] = rename([[list(e) for e in w] for w in (getattr(model, "paths_to_fix", None) or [])], syn)
            out["safe_lists"] = rename([[list(e) for e in w] for w in (getattr(model, "safe_lists", None) or [])], syn)
            out["set_zero"] = edges_list(getattr(model, "edges_set_to_zero", None), syn)
            out["set_one"] = edges_list(getattr(model, "edges_set_to_one", None), syn)
            g = getattr(model, "G", None)
            if g is not None and hasattr(g, "source"):
                out["aug_edges"] = sorted(rename([list(e) for e in g.edges()], syn))
                out["aug_nodes"] = sorted(rename(list(g.nodes()), syn))
                te = getattr(model, "trusted_edges_for_safety", None)
                out["trusted"] = sorted(rename([list(e) for e in (te or [])], syn))
    if _restore_scan is not None:
        fp.MinFlowDecomp.subgraph_lowerbound_size = _restore_scan
    out["trace"] = [list(t) for t in _trace]
    out["ninv"] = _ninv[0]
    out["timeout"] = False
    out["wall_ms"] = int((time.time() - t0) * 1000)
    return out


def timed_out(inst):
    out = dict(inst)
    out.update({"timeout": True, "ctor_exc": "none", "solved": False, "solve_ret": NONE, "solve_exc": "none",
                "routes": [], "weights": [], "wtypes": [], "slacks": [], "stypes": [], "sslacks": [], "errs": [],
                "obj": NONE, "valid": NONE, "sol_exc": "none", "obj_exc": "none", "trace": [], "ninv": 0,
                "got_solution": False, "has_weights": False, "has_slacks": False, "has_errs": False,
                "process_exit": False, "k_model": NONE, "routes_key": "none"})
    return out


def main():
    src, dst = sys.argv[1], sys.argv[2]
    limit = float(sys.argv[3]) if len(sys.argv) > 3 else 90.0
    insts = read_ndjson(src)
    res = run_pool("drive_models", "run_instance", insts, limit_s=limit, on_timeout=timed_out)
    bad = [r for r in res if "harness_error" in r]
    if bad:
        sys.stderr.write("HARNESS ERROR: " + json.dumps(bad[0])[:2000] + "\n")
        sys.exit(2)
    write_ndjson(dst, res)


if __name__ == "__main__":
    main()
