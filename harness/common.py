"""Shared plumbing of the conformance harness.

This file deliberately contains NO notion of correctness: it turns JSON instances
(produced by TLC from spec/Universe.tla, or by seeded generators whose claims TLC
re-validates) into calls of the public flowpaths API and serialises what came back.
Every verdict is computed by TLC from the records written here (spec/Trace_*.tla).

Number convention (DESIGN 4.3): TLC has 32-bit integers and no reals, and its JSON reader
truncates floats and rejects null.  Every number that leaves this module is an integer:
values are written in units of 1/UNIT ("fixed point"), `NONE` stands for "absent".
"""
import json
import math
import os
import sys
import signal
import time
import traceback
import multiprocessing as mp

UNIT = 10000          # fixed-point unit: 1.0 == 10000
NONE = -999999        # sentinel for "absent / None / not a number"

REPO = os.environ.get("FLOWPATHS_ROOT", "/repo")
if REPO not in sys.path:
    sys.path.insert(0, REPO)
os.environ.setdefault("PYTHONHASHSEED", "0")
sys.dont_write_bytecode = True


def fx(x):
    """fixed-point encoding of a python number (or NONE)."""
    if x is None or isinstance(x, bool) and False:
        return NONE
    try:
        xf = float(x)
    except Exception:
        return NONE
    if math.isnan(xf) or math.isinf(xf) or abs(xf) > 2.0e5:
        return NONE
    return int(round(xf * UNIT))


def tname(x):
    t = type(x).__name__
    # numpy scalars are reported by their python-facing family, but distinguishable
    return t


def val_of(w, num, den, as_float):
    """The python value passed to the library for integer datum w scaled by num/den."""
    if as_float:
        return float(w) * num / den
    if den == 1:
        return int(w) * int(num)
    return float(w) * num / den


def import_flowpaths():
    import warnings
    warnings.filterwarnings("ignore")
    import flowpaths as fp
    import logging
    # silence library logging (it logs errors for expected ValueErrors)
    try:
        fp.utils.logger.setLevel(logging.CRITICAL + 10)
        fp.utils.logger.disabled = True
    except Exception:
        pass
    return fp


# ---------------------------------------------------------------------------------------------
# process pool with hard per-task time limits
# ---------------------------------------------------------------------------------------------

def _worker(func_module, func_name, inq, outq):
    import importlib
    mod = importlib.import_module(func_module)
    func = getattr(mod, func_name)
    cov = None
    if os.environ.get("VERIF_COVERAGE"):      # tools/coverage_report.sh only: which library lines do the drivers reach
        import coverage
        cov = coverage.Coverage(data_file=os.path.join(os.environ["VERIF_COVERAGE"], "cov"), data_suffix=True,
                                source=[os.path.join(os.environ.get("FLOWPATHS_ROOT", "/repo"), "flowpaths")])
        cov.start()
    n = 0
    while True:
        item = inq.get()
        if item is None:
            if cov is not None:
                cov.stop()
                cov.save()
            return
        idx, task = item
        outq.put(("start", idx, os.getpid(), time.time()))
        try:
            res = func(task)
        except BaseException as e:  # harness failure, not a verdict
            res = {"harness_error": f"{type(e).__name__}: {e}", "tb": traceback.format_exc()[-800:]}
        n += 1
        if cov is not None and n % 25 == 0:
            cov.save()
        outq.put(("done", idx, os.getpid(), res))


def run_pool(func_module, func_name, tasks, nproc=None, limit_s=60.0, on_timeout=None):
    """Run func(task) for every task in worker processes; a task exceeding limit_s has its
    process killed and yields on_timeout(task).  Results are returned in task order."""
    nproc = nproc or min(16, os.cpu_count() or 4)
    nproc = max(1, min(nproc, len(tasks)))
    ctx = mp.get_context("fork")
    inq = ctx.Queue()
    outq = ctx.Queue()
    results = [None] * len(tasks)
    for i, t in enumerate(tasks):
        inq.put((i, t))
    procs = {}

    def spawn():
        p = ctx.Process(target=_worker, args=(func_module, func_name, inq, outq), daemon=True)
        p.start()
        procs[p.pid] = p

    for _ in range(nproc):
        spawn()
    running = {}   # pid -> (idx, start)
    done = 0
    import queue as _q
    while done < len(tasks):
        try:
            msg = outq.get(timeout=0.5)
        except _q.Empty:
            msg = None
        if msg is not None:
            kind, idx, pid, payload = msg
            if kind == "start":
                running[pid] = (idx, payload)
            else:
                results[idx] = payload
                running.pop(pid, None)
                done += 1
        now = time.time()
        for pid, (idx, st) in list(running.items()):
            if now - st > limit_s:
                p = procs.pop(pid, None)
                if p is not None:
                    try:
                        os.kill(pid, signal.SIGKILL)
                    except Exception:
                        pass
                    p.join(1)
                running.pop(pid, None)
                if results[idx] is None:
                    results[idx] = on_timeout(tasks[idx]) if on_timeout else {"timeout": True}
                    done += 1
                spawn()
        # a worker that died without reporting (segfault): detect
        for pid, p in list(procs.items()):
            if not p.is_alive() and pid in running:
                idx, st = running.pop(pid)
                procs.pop(pid)
                if results[idx] is None:
                    results[idx] = {"harness_error": "worker process died"}
                    done += 1
                spawn()
    for _ in procs:
        inq.put(None)
    for p in procs.values():
        p.join(2)
        if p.is_alive():
            p.kill()
    return results


def read_ndjson(path):
    out = []
    with open(path) as f:
        for line in f:
            line = line.strip()
            if line:
                out.append(json.loads(line))
    return out


def write_ndjson(path, recs):
    with open(path, "w") as f:
        for r in recs:
            f.write(json.dumps(r, separators=(",", ":"), sort_keys=True))
            f.write("\n")
