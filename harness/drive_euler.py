"""Driver for the Eulerian walk reconstruction (C14): presets edge_vars_sol of a real AbstractWalkModelDiGraph
object (no solver involved) with TLC-generated multiplicity assignments and calls get_solution_walks()."""
import sys
import os
import json

sys.path.insert(0, os.path.dirname(os.path.abspath(__file__)))
from common import *  # noqa

_fp = None
_Sub = None


def run_instance(inst):
    global _fp, _Sub
    if _fp is None:
        _fp = import_flowpaths()
        base = _fp.AbstractWalkModelDiGraph

        class _S(base):   # concrete subclass only to be instantiable; none of these is exercised
            def get_solution(self): return None
            def get_lowerbound_k(self): return 1
            def is_valid_solution(self): return True
            def get_objective_value(self): return 0
        _Sub = _S
    fp = _fp
    import networkx as nx
    out = dict(inst)
    G = nx.DiGraph()
    G.add_nodes_from(inst["unodes"])
    G.add_edges_from([tuple(e) for e in inst["uedges"]])
    H = fp.stDiGraph(G)
    inv = {"S*": H.source, "T*": H.sink}
    syn = {H.source: "S*", H.sink: "T*"}
    m = _Sub.__new__(_Sub)
    m.G = H
    m.k = len(inst["layers"])
    sol = {}
    eps = inst.get("eps", 0)
    for i, vec in enumerate(inst["layers"]):
        for (u, v), c in zip(inst["edges"], vec):
            val = c
            if eps:
                val = c + (eps if (len(sol) % 2 == 0) else -eps) * 1e-7
            sol[(inv.get(u, u), inv.get(v, v), i)] = val
    m.edge_vars_sol = sol
    out["exc"] = "none"
    try:
        walks = m.get_solution_walks()
        if inst.get("twice"):        # the walks of the same solution read a second time: what is reported is the second reading
            walks = m.get_solution_walks()
        out["walks"] = [[syn.get(x, x) for x in w] for w in walks]
    except BaseException as e:
        out["exc"] = type(e).__name__
        out["walks"] = []
    return out


def main():
    src, dst = sys.argv[1], sys.argv[2]
    insts = read_ndjson(src)
    res = run_pool("drive_euler", "run_instance", insts, limit_s=60)
    bad = [r for r in res if "harness_error" in r]
    if bad:
        sys.stderr.write("HARNESS ERROR: " + json.dumps(bad[0])[:2000] + "\n")
        sys.exit(2)
    write_ndjson(dst, res)


if __name__ == "__main__":
    main()
