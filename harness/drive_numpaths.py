"""Driver for the generic number-of-paths optimiser (C13): one NumPathsOptimization object, one solve().

Two kinds of wrapped model:
  scripted  a stand-in model class whose runs answer what a TLC-generated oracle says (status and objective per
            candidate k) - no solver involved; the optimiser's own loop is the code under test
  real      kLeastAbsErrors / kMinPathError on a graph instance, chosen solver runs answered with an injected status
In both cases every run the optimiser makes is logged as [k, status it saw, objective] and what the optimiser
answers afterwards is recorded.  No judgement is made here."""
import sys
import os

sys.path.insert(0, os.path.dirname(os.path.abspath(__file__)))
from common import *  # noqa
import drive_models as D

_fractional = [False]      # an objective that is not a whole number was seen (the record is then left to the solver-event clauses)
STATUS_CLASS = {"kOptimal": "Optimal", "kInfeasible": "Infeasible", "kTimeLimit": "TimeLimit", "kInterrupt": "Interrupt",
                "custom_timeout": "CustomTimeout"}


def _scripted_type(oracle, lo, log, lb):
    """a model class answering from the oracle: oracle[k - lo] = [status class, objective in units]"""

    class Scripted:
        def __init__(self, k=None, **kw):
            self.k = k
            self._ran = False
            self.solve_statistics = {"scripted": True}

        def _entry(self):
            i = self.k - lo
            return oracle[i] if 0 <= i < len(oracle) else ["Optimal", 0]

        def solve(self):
            self._ran = True
            st, obj = self._entry()
            log.append([self.k, st, obj if st == "Optimal" else 0])
            return st == "Optimal"

        def is_solved(self):
            return self._ran and self._entry()[0] == "Optimal"

        def get_objective_value(self):
            if not self.is_solved():
                raise Exception("not solved")
            return self._entry()[1]

        def get_solution(self):
            if not self.is_solved():
                raise Exception("not solved")
            return {"paths": [["s", "t"]] * self.k, "weights": [1] * self.k, "scripted_k": self.k}

        def get_lowerbound_k(self):
            return lb

        def is_valid_solution(self):
            return True

    return Scripted


def _real_type(fp, name, log):
    base = getattr(fp, name)

    class Recorded(base):
        def solve(self):
            before = len(D._trace)
            r = super().solve()
            mine = [t for t in D._trace[before:] if t[3] == "main"]
            if mine:
                t = mine[-1]
                seen = "custom_timeout" if t[2] == "custom_timeout" else t[4]
            else:
                seen = "none"
            obj = NONE
            if self.is_solved():
                try:
                    obj = fx(self.get_objective_value())
                except BaseException:
                    obj = NONE
            if obj != NONE and obj % UNIT != 0:
                _fractional[0] = True
            log.append([self.k, STATUS_CLASS.get(seen, "Unknown"), obj // UNIT if obj != NONE else 0])
            return r

    Recorded.__name__ = name
    return Recorded


def run_instance(inst):
    if D._fp is None:
        D._fp = import_flowpaths()
        D._install_tracer(D._fp)
    fp = D._fp
    D._trace.clear(); D._faults.clear(); D._ninv[0] = 0; D._percount.clear()
    for k, v in (inst.get("faults") or {}).items():
        D._faults[int(k) if str(k).isdigit() else k] = v
    out = dict(inst)
    log = []
    _fractional[0] = False
    par = inst["par"]
    kw = {}
    if par["first"] is not None:
        kw["stop_on_first_feasible"] = par["first"]
    if par["dabs"] is not None:
        kw["stop_on_delta_abs"] = par["dabs"]
    if par["drel"] is not None:
        kw["stop_on_delta_rel"] = par["drel"][0] / par["drel"][1] if par["drel"][0] else 0
    if par.get("min") is not None:
        kw["min_num_paths"] = par["min"]
    if par.get("max") is not None:
        kw["max_num_paths"] = par["max"]
    if par.get("budget") == "zero":
        kw["time_limit"] = 0
    if inst["kind"] == "scripted":
        kw["model_type"] = _scripted_type(inst["oracle"], inst["lo"], log, inst.get("lb", 1))
    else:
        G = D.build_graph(inst)
        inner = dict(inst)
        inner["cls"] = inst["model_type"]
        inner.pop("k", None)
        kw.update(D.build_kwargs(inner, G))
        kw["model_type"] = _real_type(fp, inst["model_type"], log)
    out.update({"ctor_exc": "none", "solve_ret": NONE, "solve_exc": "none", "solved": False, "status": "none", "ret_k": 0,
                "obj": NONE, "obj_exc": "none", "sol_exc": "none", "same_solution": False, "pre_sol_exc": "none",
                "pre_obj_exc": "none", "lb": NONE, "timeout": False})
    try:
        m = fp.NumPathsOptimization(**kw)
    except BaseException as e:
        out["ctor_exc"] = type(e).__name__
        out["events"] = []
        return out
    for name, key in (("get_solution", "pre_sol_exc"), ("get_objective_value", "pre_obj_exc")):
        try:
            getattr(m, name)()
        except BaseException as e:
            out[key] = type(e).__name__
    try:
        r = m.solve()
        out["solve_ret"] = 1 if r is True else (0 if r is False else NONE)
    except BaseException as e:
        out["solve_exc"] = type(e).__name__
    try:
        out["solved"] = bool(m.is_solved())
    except BaseException:
        out["solved"] = False
    st = getattr(m, "solve_statistics", None)
    if isinstance(st, dict):
        out["status"] = str(st.get("solve_status"))
    inner_model = getattr(m, "model", None)
    sol = None
    try:
        sol = m.get_solution()
    except BaseException as e:
        out["sol_exc"] = type(e).__name__
    try:
        ov = m.get_objective_value()
        o = fx(ov)
        if o != NONE and o % UNIT != 0:
            _fractional[0] = True
        out["obj"] = o // UNIT if o != NONE else NONE
    except BaseException as e:
        out["obj_exc"] = type(e).__name__
    if inner_model is not None and out["solved"]:
        out["ret_k"] = inner_model.k if isinstance(getattr(inner_model, "k", None), int) else 0
        try:
            out["same_solution"] = sol is not None and (sol is inner_model.get_solution() or sol == inner_model.get_solution())
        except BaseException:
            out["same_solution"] = False
    try:
        out["lb"] = int(m.get_lowerbound_k())
    except BaseException:
        out["lb"] = NONE
    out["events"] = [list(e) for e in log]
    out["fractional"] = _fractional[0]
    return out


def timed_out(inst):
    out = dict(inst)
    out.update({"timeout": True, "ctor_exc": "none", "events": []})
    return out


if __name__ == "__main__":
    src, dst = sys.argv[1], sys.argv[2]
    limit = float(sys.argv[3]) if len(sys.argv) > 3 else 60.0
    insts = read_ndjson(src)
    res = run_pool("drive_numpaths", "run_instance", insts, limit_s=limit, on_timeout=timed_out)
    bad = [r for r in res if isinstance(r, dict) and "harness_error" in r]
    if bad:
        sys.stderr.write("HARNESS ERROR: " + json.dumps(bad[0])[:1500] + "\n")
        sys.exit(2)
    write_ndjson(dst, res)
