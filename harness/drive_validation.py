"""Driver for C19: materialises a (class, set of defects) case through a fixed table of input builders, constructs and
solves the model, records the exception type / solved flag.  The builders are pure syntax: they start from one valid
base input per class family and apply the named modification."""
import sys
import os
import json

sys.path.insert(0, os.path.dirname(os.path.abspath(__file__)))
from common import *  # noqa

_fp = None
COVER = {"kPathCover", "MinPathCover", "kPathCoverCycles", "MinPathCoverCycles"}
KCLS = {"kFlowDecomp", "kMinPathError", "kLeastAbsErrors", "kPathCover", "kFlowDecompCycles", "kMinPathErrorCycles",
        "kLeastAbsErrorsCycles", "kPathCoverCycles"}


def base_graph(cyc, names):
    import networkx as nx
    a, b, c, d, e = names
    G = nx.DiGraph()
    if not cyc:
        for u, v, f in [(a, b, 5), (b, c, 3), (b, d, 2), (c, e, 3), (d, e, 2)]:
            G.add_edge(u, v, flow=f)
    else:
        for u, v, f in [(a, b, 3), (b, c, 5), (c, b, 2), (c, d, 3), (d, e, 3)]:
            G.add_edge(u, v, flow=f)
    return G


def materialize(cls, defects, names):
    import networkx as nx
    cyc = cls.endswith("Cycles")
    a, b, c, d, e = names
    G = base_graph(cyc, names)
    kw = {"G": G}
    cons_key = "subset_constraints" if cyc else "subpath_constraints"
    cov_key = "subset_constraints_coverage" if cyc else "subpath_constraints_coverage"
    if cls not in COVER:
        kw["flow_attr"] = "flow"
        kw["weight_type"] = int
    if cls in KCLS:
        kw["k"] = 2
    for df in sorted(defects, key=lambda x: x == "nonstring_node"):   # renaming to non-string nodes is applied last
        if df == "nonstring_node":
            H = nx.DiGraph()
            m = {a: 0, b: 1, c: 2, d: 3, e: 4}
            for u, v, dat in G.edges(data=True):
                H.add_edge(m[u], m[v], **dat)
            kw["G"] = G = H
        elif df == "cyclic_graph":
            G.add_edge(e, b, flow=0) if False else G.add_edge(c, b, flow=1)
            G[b][c]["flow"] += 1
        elif df == "source_only_self_loop":      # the only way into the first node is its own self-loop: the graph has no source
            G.add_edge(a, a, flow=1)
        elif df == "sink_only_self_loop":        # ... and the only way out of the last node is a self-loop: no sink
            G.add_edge(e, e, flow=1)
        elif df == "no_source":
            G.add_edge(b, a, flow=0)
        elif df == "no_sink":
            G.add_edge(e, d, flow=0)
        elif df == "negative_weight":
            u, v = list(G.edges())[1]
            G[u][v]["flow"] = -1
        elif df in ("negative_first_weight", "negative_last_weight"):
            u, v = list(G.edges())[0 if df == "negative_first_weight" else -1]
            G[u][v]["flow"] = -1
        elif df == "missing_weight":
            u, v = list(G.edges())[2]
            del G[u][v]["flow"]
        elif df == "nonconserving_flow":
            u, v = list(G.edges())[0]
            G[u][v]["flow"] += 2
        elif df == "nonconserving_by_one_in_millions":
            for u, v in list(G.edges()):
                G[u][v]["flow"] *= 1000000
            u, v = list(G.edges())[0]
            G[u][v]["flow"] += 1
        elif df == "nonconserving_behind_zero_flow":
            # every node balanced except one inner node whose incoming edges all carry 0 while its outgoing edge carries flow
            if not cyc:
                for (u, v), f in {(a, b): 3, (b, c): 3, (b, d): 0, (c, e): 3, (d, e): 2}.items():
                    G[u][v]["flow"] = f
            else:
                for (u, v), f in {(a, b): 0, (b, c): 2, (c, b): 2, (c, d): 0, (d, e): 3}.items():
                    G[u][v]["flow"] = f
        elif df == "constraint_absent_edge":
            kw[cons_key] = [[(a, e)]]
        elif df == "constraint_not_list_of_lists":
            kw[cons_key] = [(a, b)]
        elif df == "constraint_bad_edge_shape":
            kw[cons_key] = [[(a, b, c)]]
        elif df == "constraint_empty":
            kw[cons_key] = [[]]
        elif df in ("coverage_zero", "coverage_above_one", "coverage_negative"):
            kw.setdefault(cons_key, [[(list(G.edges())[0])]])
            kw[cov_key] = {"coverage_zero": 0, "coverage_above_one": 1.5, "coverage_negative": -0.5}[df]
        elif df in ("covlen_zero", "covlen_above_one", "covlen_without_length_attr", "covlen_with_coverage"):
            # length coverage (DAG models): outside (0,1], without a length attribute, or together with an edge coverage
            kw.setdefault(cons_key, [[(list(G.edges())[0])]])
            kw["subpath_constraints_coverage_length"] = {"covlen_zero": 0, "covlen_above_one": 1.5}.get(df, 0.5)
            if df != "covlen_without_length_attr":
                kw["length_attr"] = "length"
            if df == "covlen_with_coverage":
                kw["subpath_constraints_coverage"] = 0.5
        elif df == "k_zero":
            kw["k"] = 0
        elif df == "k_negative":
            kw["k"] = -1
        elif df == "k_not_int":
            kw["k"] = 2.5
        elif df == "bad_weight_type":
            kw["weight_type"] = str
        elif df == "bad_origin":
            kw["cover_type" if cls in COVER else "flow_attr_origin"] = "vertex"
        elif df == "unknown_start":
            kw["additional_starts"] = ["zz"]
        elif df == "unknown_end":
            kw["additional_ends"] = ["zz"]
        elif df == "scaling_above_one":
            kw["error_scaling"] = {list(G.edges())[0]: 1.5}
        elif df == "scaling_negative":
            kw["error_scaling"] = {list(G.edges())[0]: -0.5}
    kw["solver_options"] = {"threads": 1}
    return kw


def run_instance(inst):
    global _fp
    if _fp is None:
        _fp = import_flowpaths()
    fp = _fp
    out = dict(inst)
    out.update({"ctor_exc": "none", "solve_exc": "none", "solved": False, "msg": ""})
    try:
        kw = materialize(inst["cls"], inst["defects"], inst["names"])
        model = getattr(fp, inst["cls"])(**kw)
    except SystemExit:
        out["ctor_exc"] = "SystemExit"
        return out
    except BaseException as e:
        out["ctor_exc"] = type(e).__name__
        out["msg"] = str(e)[:120]
        return out
    try:
        model.solve()
    except SystemExit:
        out["solve_exc"] = "SystemExit"
    except BaseException as e:
        out["solve_exc"] = type(e).__name__
        out["msg"] = str(e)[:120]
    try:
        out["solved"] = bool(model.is_solved())
    except BaseException:
        out["solved"] = False
    return out


def timed_out(inst):
    out = dict(inst)
    out.update({"ctor_exc": "none", "solve_exc": "Timeout", "solved": False, "msg": "timeout"})
    return out


def main():
    src, dst = sys.argv[1], sys.argv[2]
    insts = read_ndjson(src)
    res = run_pool("drive_validation", "run_instance", insts, limit_s=60, on_timeout=timed_out)
    bad = [r for r in res if "harness_error" in r]
    if bad:
        sys.stderr.write("HARNESS ERROR: " + json.dumps(bad[0])[:2000] + "\n")
        sys.exit(2)
    write_ndjson(dst, res)


if __name__ == "__main__":
    main()
