"""Driver for SolverWrapper (C12): (a) replays TLC-generated call histories on a real wrapper and records the backend
state after every call; (b) emits the rows of the modelling helpers and min/max probes of their feasible sets."""
import sys
import os
import json
import math

sys.path.insert(0, os.path.dirname(os.path.abspath(__file__)))
from common import *  # noqa

_fp = None
INF = 10 ** 8     # "infinite" bound sentinel (fixed point would overflow)


def _sw():
    global _fp
    if _fp is None:
        _fp = import_flowpaths()
    from flowpaths.utils import solverwrapper as m
    return m


def num(x):
    if x is None:
        return NONE
    x = float(x)
    if math.isinf(x) or abs(x) >= 1e7:
        return INF if x > 0 else -INF
    return int(round(x * UNIT))


def cols_of(w, handles, order):
    import numpy as np
    if not order:
        return []
    idx = np.array([handles[v].index for v in order], dtype=np.int32)
    st, n, costs, lo, up, nnz = w.solver.getCols(len(idx), idx)
    return [[num(lo[i]), num(up[i]), num(costs[i])] for i in range(len(order))]


def run_pair(inst):
    """two wrappers alive at the same time, their histories interleaved as inst['order'] says ('a'/'b'): each wrapper's own
    calls and observations form one record (ops, obs) - to be validated as an ordinary single-wrapper history."""
    m = _sw()
    st = {"a": {"w": m.SolverWrapper(threads=1), "handles": {}, "order": [], "obs": [], "i": 0, "ops": inst["ops_a"]},
          "b": {"w": m.SolverWrapper(threads=1), "handles": {}, "order": [], "obs": [], "i": 0, "ops": inst["ops_b"]}}
    for who in inst["order"]:
        x = st[who]
        op = x["ops"][x["i"]]
        x["i"] += 1
        x["obs"].append(_step(x["w"], x["handles"], x["order"], op))
    return {"id": inst["id"], "pair": True,
            "a": {"id": inst["id"] * 10 + 1, "ops": inst["ops_a"], "obs": st["a"]["obs"]},
            "b": {"id": inst["id"] * 10 + 2, "ops": inst["ops_b"], "obs": st["b"]["obs"]}}


def run_history(inst):
    m = _sw()
    out = dict(inst)
    w = m.SolverWrapper(threads=1)
    handles, order, obs = {}, [], []
    for op in inst["ops"]:
        obs.append(_step(w, handles, order, op))
    out["obs"] = obs
    return out


def _step(w, handles, order, op):
    if True:
        o = {"exc": "none", "status": "none", "objval": NONE, "keys": [], "vals": []}
        try:
            kind = op[0]
            if kind == "add":
                d = w.add_variables([op[1]], name_prefix=op[1] + "_", lb=op[2], ub=op[3], var_type="integer")
                handles[op[1]] = d[op[1]]
                order.append(op[1])
            elif kind == "fix":
                w.queue_fix_variable(handles[op[1]], op[2])
            elif kind == "lb":
                w.queue_set_var_lower_bound(handles[op[1]], op[2])
            elif kind == "obj":
                expr = w.quicksum(c * handles[v] for v, c in op[1])
                if len(op) > 3 and op[3] != 0:
                    expr = expr + op[3]          # objective with a constant term
                w.set_objective(expr, sense=op[2])
            elif kind == "opt":
                w.optimize()
                o["status"] = str(w.get_model_status())
                if o["status"] == "kOptimal":
                    o["objval"] = num(w.get_objective_value())
            elif kind == "get":
                vals = w.get_values({v: handles[v] for v in op[1]})
                o["keys"] = sorted(str(k) for k in vals.keys())
                o["vals"] = [[str(k), num(vals[k])] for k in sorted(vals.keys())]
        except BaseException as e:
            o["exc"] = type(e).__name__
            o["msg"] = str(e)[:120]
        o["cols"] = cols_of(w, handles, order)
        try:
            st, sense = w.solver.getObjectiveSense()
            o["sense"] = "minimize" if "Min" in str(sense) else "maximize"
        except BaseException:
            o["sense"] = "unknown"
        o["order"] = list(order)
        return o


def lp_rows(w):
    """rows, column bounds and integrality of the backend model (HiGHS), numbers in fixed point."""
    lp = w.solver.getLp()
    ncol, nrow = lp.num_col_, lp.num_row_
    a = lp.a_matrix_
    start, index, value = list(a.start_), list(a.index_), list(a.value_)
    rows = [{"coefs": [], "lo": num(lp.row_lower_[r]), "hi": num(lp.row_upper_[r])} for r in range(nrow)]
    fmt = str(a.format_)
    if "Col" in fmt:
        for c in range(ncol):
            for p in range(start[c], start[c + 1]):
                rows[index[p]]["coefs"].append([c + 1, num(value[p])])
    else:
        for r in range(nrow):
            for p in range(start[r], start[r + 1]):
                rows[r]["coefs"].append([index[p] + 1, num(value[p])])
    integ = list(lp.integrality_) if len(lp.integrality_) else []
    cols = [{"lo": num(lp.col_lower_[c]), "hi": num(lp.col_upper_[c]),
             "int": bool(integ and "Integer" in str(integ[c]))} for c in range(ncol)]
    return rows, cols


def probe(build, fixes, target, sense, den=1):
    """fresh wrapper, build the gadget, fix the given variables, optimise target; returns (status, value)."""
    w, hv = build()
    for name, val in fixes.items():
        w.add_constraint(hv[name] == (val / den if (den != 1 and name == "c") else val), name="fix_" + name)
    w.set_objective(w.quicksum([1 * hv[target]]), sense=sense)
    w.optimize()
    st = str(w.get_model_status())
    return st, (num(w.get_objective_value()) if st == "kOptimal" else NONE)


def run_gadget(inst):
    m = _sw()
    out = dict(inst)
    kind = inst["gadget"]
    ub = inst.get("ub", 0)
    xub = inst.get("xub", ub)

    def build():
        w = m.SolverWrapper(threads=1)
        hv = {}
        if kind == "binary":
            hv["b"] = w.add_variables(["b"], name_prefix="b_", lb=0, ub=1, var_type="integer")["b"]
            hv["c"] = w.add_variables(["c"], name_prefix="c_", lb=0, ub=ub, var_type="continuous")["c"]
            # the helper documents assumptions on the binary and the continuous variable only: the product variable is
            # declared wide (negative values allowed), so the emitted rows alone must force p = b*c
            hv["p"] = w.add_variables(["p"], name_prefix="p_", lb=-(2 * ub + 1), ub=2 * ub + 1, var_type="continuous")["p"]
            w.add_binary_continuous_product_constraint(binary_var=hv["b"], continuous_var=hv["c"], product_var=hv["p"],
                                                       lb=0, ub=ub, name="g")
        elif kind == "integer":
            den = inst.get("den", 1)          # bounds and values of the continuous factor are given in 1/den units
            hv["x"] = w.add_variables(["x"], name_prefix="x_", lb=0, ub=xub, var_type="integer")["x"]
            hv["c"] = w.add_variables(["c"], name_prefix="c_", lb=0, ub=inst["cub"] / den if den != 1 else inst["cub"], var_type="continuous")["c"]
            hv["p"] = w.add_variables(["p"], name_prefix="p_", lb=0, ub=max(ub, 1) * 2, var_type="continuous")["p"]
            w.add_integer_continuous_product_constraint(integer_var=hv["x"], continuous_var=hv["c"], product_var=hv["p"],
                                                        lb=0, ub=ub / den if den != 1 else ub, name="g")
        elif kind == "piecewise":
            lo = min(r[0] for r in inst["ranges"])
            hi = max(r[1] for r in inst["ranges"])
            hv["x"] = w.add_variables(["x"], name_prefix="x_", lb=lo - 2, ub=hi + 2, var_type="integer")["x"]
            cmax = max(inst["constants"] + [0])
            cmin = min(inst["constants"] + [0])
            hv["y"] = w.add_variables(["y"], name_prefix="y_", lb=cmin - 3, ub=cmax + 3, var_type="continuous")["y"]
            w.add_piecewise_constant_constraint(x=hv["x"], y=hv["y"], ranges=[tuple(r) for r in inst["ranges"]],
                                                constants=list(inst["constants"]), name_prefix="pw")
        return w, hv
    out["exc"] = "none"
    try:
        w, hv = build()
        rows, cols = lp_rows(w)
        out["rows"], out["cols"] = rows, cols
        out["colnames"] = {k: v.index + 1 for k, v in hv.items()}
        probes = []
        for fx_ in inst["probes"]:
            target = "y" if kind == "piecewise" else "p"
            smin, vmin = probe(build, fx_, target, "minimize", inst.get("den", 1))
            smax, vmax = probe(build, fx_, target, "maximize", inst.get("den", 1))
            probes.append({"fix": [[k, v] for k, v in sorted(fx_.items())], "smin": smin, "vmin": vmin, "smax": smax, "vmax": vmax})
        out["probe_obs"] = probes
    except BaseException as e:
        out["exc"] = type(e).__name__
        out["msg"] = str(e)[:200]
        out.setdefault("rows", [])
        out.setdefault("cols", [])
        out.setdefault("colnames", {})
        out["probe_obs"] = []
    return out


def run_instance(inst):
    if "ops_a" in inst:
        return run_pair(inst)
    if "ops" in inst:
        return run_history(inst)
    return run_gadget(inst)


def main():
    src, dst = sys.argv[1], sys.argv[2]
    insts = read_ndjson(src)
    res = run_pool("drive_wrapper", "run_instance", insts, limit_s=60)
    bad = [r for r in res if "harness_error" in r]
    if bad:
        sys.stderr.write("HARNESS ERROR: " + json.dumps(bad[0])[:2000] + "\n")
        sys.exit(2)
    write_ndjson(dst, res)


if __name__ == "__main__":
    main()
