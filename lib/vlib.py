"""Runner library: TLC invocation, TLA+ value parsing, sharding, evidence, known findings.

Exit-code discipline (DESIGN 5): 0 = property held on everything explored (KNOWN-FINDING lines allowed),
1 = VIOLATION line(s) printed, 2 = machinery failure (never a silent pass)."""
import hashlib
import json
import os
import re
import shutil
import subprocess
import sys
import tempfile
import time
from concurrent.futures import ThreadPoolExecutor

VERIF = os.path.dirname(os.path.dirname(os.path.abspath(__file__)))
SPEC = os.path.join(VERIF, "spec")
HARNESS = os.path.join(VERIF, "harness")
# VERIF_OUT_DIR (development aid, tools/try_mutant.py --root): write evidence / replay files elsewhere, so that trying a
# seeded change does not disturb the files of a check running at the same time
_OUT = os.environ.get("VERIF_OUT_DIR") or VERIF
EVID = os.path.join(_OUT, "evidence")
REPLAY = os.path.join(_OUT, "replay")
CACHE = os.path.join(VERIF, ".cache")
PY = "/venv/bin/python"
TLA_CP = "/opt/veriftools/tla/tla2tools.jar:/opt/veriftools/tla/CommunityModules-deps.jar"
NONE = -999999
UNIT = 10000


class Machinery(Exception):
    pass


def die(msg):
    sys.stdout.write("MACHINERY-FAILURE: " + msg + "\n")
    sys.stdout.flush()
    sys.exit(2)


# ---------------------------------------------------------------------------------------------
# TLA+ value parser (for PrintT output): ints, strings, TRUE/FALSE, <<..>>, {..}, [a |-> ..], (a :> b @@ ..)
# ---------------------------------------------------------------------------------------------
_RE_INT = re.compile(r"-?\d+")
_RE_ID = re.compile(r"[A-Za-z_][A-Za-z0-9_]*")


class _P:
    def __init__(self, s):
        self.s = s
        self.i = 0

    def ws(self):
        while self.i < len(self.s) and self.s[self.i] in " \t\r\n":
            self.i += 1

    def peek(self, t):
        self.ws()
        return self.s.startswith(t, self.i)

    def eat(self, t):
        self.ws()
        if not self.s.startswith(t, self.i):
            raise ValueError(f"expected {t!r} at {self.i}: {self.s[self.i:self.i+40]!r}")
        self.i += len(t)

    def value(self):
        self.ws()
        s = self.s
        if self.peek("<<"):
            self.eat("<<")
            items = []
            if self.peek(">>"):
                self.eat(">>")
                return items
            while True:
                items.append(self.value())
                if self.peek(","):
                    self.eat(",")
                    continue
                self.eat(">>")
                return items
        if self.peek("{"):
            self.eat("{")
            items = []
            if self.peek("}"):
                self.eat("}")
                return {"__set__": items}
            while True:
                items.append(self.value())
                if self.peek(","):
                    self.eat(",")
                    continue
                self.eat("}")
                return {"__set__": items}
        if self.peek("["):
            self.eat("[")
            rec = {}
            while True:
                self.ws()
                m = _RE_ID.match(s, self.i)
                key = m.group(0)
                self.i += len(key)
                self.eat("|->")
                rec[key] = self.value()
                if self.peek(","):
                    self.eat(",")
                    continue
                self.eat("]")
                return rec
        if self.peek("("):
            self.eat("(")
            rec = {}
            while True:
                k = self.value()
                self.eat(":>")
                v = self.value()
                rec[json.dumps(k) if not isinstance(k, str) else k] = v
                if self.peek("@@"):
                    self.eat("@@")
                    continue
                self.eat(")")
                return rec
        if s[self.i] == '"':
            j = self.i + 1
            buf = []
            while s[j] != '"':
                if s[j] == "\\":
                    j += 1
                buf.append(s[j])
                j += 1
            self.i = j + 1
            return "".join(buf)
        m = _RE_INT.match(s, self.i)        # (match at a position: slicing the remainder would make parsing quadratic)
        if m:
            self.i += len(m.group(0))
            return int(m.group(0))
        for lit, val in (("TRUE", True), ("FALSE", False)):
            if s.startswith(lit, self.i):
                self.i += len(lit)
                return val
        m = _RE_ID.match(s, self.i)
        if m:   # model value
            self.i += len(m.group(0))
            return m.group(0)
        raise ValueError(f"cannot parse at {self.i}: {s[self.i:self.i+40]!r}")


def parse_tla(s):
    return _P(s).value()


def setlist(v):
    if isinstance(v, dict) and "__set__" in v:
        return v["__set__"]
    return v


def extract_tagged(stdout, tags=("VERDICT", "WITNESS", "GEN", "INFO")):
    """Find every printed tuple <<"TAG", ...>> in TLC output (may span lines; bracket matching)."""
    out = []
    pat = re.compile(r"<<\s*\"(" + "|".join(tags) + r")\"")
    pos = 0
    while True:
        m = pat.search(stdout, pos)
        if not m:
            break
        p = _P(stdout)
        p.i = m.start()
        try:
            val = p.value()
        except Exception as e:
            raise Machinery(f"unparsable TLC output near {stdout[m.start():m.start()+200]!r}: {e}")
        out.append(val)
        pos = p.i
    return out


# ---------------------------------------------------------------------------------------------
# running TLC
# ---------------------------------------------------------------------------------------------
STATS_RE = re.compile(r"(\d+) states generated, (\d+) distinct states found")


def run_tlc(module, cfg, env=None, workers=1, timeout=1800, extra=(), scratch=None, heap="3g", simulate=None,
            depth_first=False):
    """Run TLC on spec/<module>.tla with config spec/<cfg>. Returns dict(stdout, states, distinct, rc, wall)."""
    scratch = scratch or tempfile.mkdtemp(prefix="vtlc_", dir=os.environ.get("VERIF_SCRATCH"))
    meta = tempfile.mkdtemp(prefix="meta_", dir=scratch)
    e = dict(os.environ)
    e.update(env or {})
    jopts = f"-Xmx{heap}"
    if depth_first:
        jopts += " -Dtlc2.tool.queue.IStateQueue=StateDeque"
    cmd = ["java", "-XX:+UseParallelGC", jopts.split()[0]] + jopts.split()[1:] + ["-cp", TLA_CP, "tlc2.TLC",
           "-workers", str(workers), "-metadir", meta, "-noGenerateSpecTE", "-config", cfg]
    if simulate:
        cmd += ["-simulate", simulate]
    cmd += list(extra) + [module]
    t0 = time.time()
    try:
        p = subprocess.run(cmd, cwd=SPEC, env=e, stdout=subprocess.PIPE, stderr=subprocess.STDOUT, timeout=timeout, text=True)
        out, rc = p.stdout, p.returncode
    except subprocess.TimeoutExpired as ex:
        out = (ex.stdout or b"").decode() if isinstance(ex.stdout, bytes) else (ex.stdout or "")
        rc = -9
    shutil.rmtree(meta, ignore_errors=True)
    states = distinct = 0
    for m in STATS_RE.finditer(out):
        states, distinct = int(m.group(1)), int(m.group(2))
    return {"stdout": out, "states": states, "distinct": distinct, "rc": rc, "wall": time.time() - t0}


def run_tlapm(module, timeout=900, threads=8):
    """Check the TLAPS proofs of spec/proofs/<module>.tla (which EXTENDS modules of spec/).  Returns dict(ok, obligations,
    stdout, wall).  Runs in a scratch copy because tlapm writes a .tlacache next to the module."""
    sc = tempfile.mkdtemp(prefix="vtlaps_", dir=os.environ.get("VERIF_SCRATCH"))
    t0 = time.time()
    try:
        for f in os.listdir(SPEC):
            if f.endswith(".tla"):
                shutil.copy(os.path.join(SPEC, f), sc)
        shutil.copy(os.path.join(SPEC, "proofs", module + ".tla"), sc)
        try:
            p = subprocess.run(["tlapm", "--threads", str(threads), "--cleanfp", module + ".tla"], cwd=sc, stdout=subprocess.PIPE,
                               stderr=subprocess.STDOUT, timeout=timeout, text=True)
            out, rc = p.stdout, p.returncode
        except subprocess.TimeoutExpired as ex:
            out, rc = "timeout", -9
    finally:
        shutil.rmtree(sc, ignore_errors=True)
    m = re.search(r"All (\d+) obligations? proved", out)
    return {"ok": rc == 0 and m is not None, "obligations": int(m.group(1)) if m else 0, "stdout": out, "rc": rc,
            "wall": time.time() - t0}


def tlc_ok(res):
    """TLC finished model checking normally (no parse/eval error)."""
    o = res["stdout"]
    if res["rc"] == -9:
        return False
    if "Model checking completed. No error has been found." in o:
        return True
    if "Finished computing initial states" in o and "Error:" not in o and res["rc"] == 0:
        return True
    return False


def shard(items, n):
    n = max(1, min(n, len(items)))
    return [items[i::n] for i in range(n)]


def run_shards(module, cfg, shard_files, env_base, timeout=1800, heap="2g", par=16, workers=1):
    """Run one TLC per shard file in parallel; TRACE_FILE env names the shard."""
    def one(path):
        env = dict(env_base)
        env["TRACE_FILE"] = path
        return run_tlc(module, cfg, env=env, workers=workers, timeout=timeout, heap=heap)
    with ThreadPoolExecutor(max_workers=par) as ex:
        return list(ex.map(one, shard_files))


# ---------------------------------------------------------------------------------------------
# harness invocation
# ---------------------------------------------------------------------------------------------
def run_harness(script, args, timeout=3600, env=None):
    e = dict(os.environ)
    e.setdefault("PYTHONHASHSEED", "0")
    e["PYTHONDONTWRITEBYTECODE"] = "1"
    e.setdefault("FLOWPATHS_ROOT", "/repo")
    e["FLOWPATHS_VERIF"] = "1"
    e.update(env or {})
    p = subprocess.run([PY, os.path.join(HARNESS, script)] + [str(a) for a in args], env=e, stdout=subprocess.PIPE,
                       stderr=subprocess.PIPE, text=True, timeout=timeout)
    if p.returncode != 0:
        raise Machinery(f"harness {script} failed rc={p.returncode}: {p.stderr[-1500:]}")
    return p.stdout


def read_ndjson(path):
    out = []
    with open(path) as f:
        for line in f:
            line = line.strip()
            if line:
                out.append(json.loads(line))
    return out


def write_ndjson(path, recs):
    with open(path, "w") as f:
        for r in recs:
            f.write(json.dumps(r, separators=(",", ":"), sort_keys=True))
            f.write("\n")


def spec_hash(*names):
    h = hashlib.sha256()
    for n in names:
        with open(os.path.join(SPEC, n), "rb") as f:
            h.update(f.read())
    return h.hexdigest()[:16]


# ---------------------------------------------------------------------------------------------
# known findings
# ---------------------------------------------------------------------------------------------
def load_known():
    path = os.path.join(VERIF, "known_findings.jsonl")
    out = []
    if os.path.exists(path):
        for line in open(path):
            line = line.strip()
            if line and not line.startswith("#") and not line.startswith("fixed:"):
                out.append(json.loads(line))
    return out


def _match_pred(pred, rec):
    """pred: dict of field -> expected | {"in": [...]} | {"nonempty": bool} | {"ge": n} ...  (all must match)."""
    for key, want in pred.items():
        cur = rec
        if key == "has_cycle" and "has_cycle" not in rec:
            # derived from the input itself: does the graph of the record contain a directed cycle (self-loops included)?
            try:
                import networkx as nx
                g = nx.DiGraph([tuple(e) for e in rec.get("edges", [])])
                rec = dict(rec, has_cycle=not nx.is_directed_acyclic_graph(g))
                cur = rec
            except Exception:
                return False
        for part in key.split("."):
            if isinstance(cur, dict) and part in cur:
                cur = cur[part]
            else:
                cur = None
                break
        if isinstance(want, dict):
            if "in" in want and cur not in want["in"]:
                return False
            if "nonempty" in want and bool(cur) != want["nonempty"]:
                return False
            if "ge" in want and not (isinstance(cur, (int, float)) and cur >= want["ge"]):
                return False
            if "le" in want and not (isinstance(cur, (int, float)) and cur <= want["le"]):
                return False
            if "ne" in want and cur == want["ne"]:
                return False
            if "contains" in want and not (isinstance(cur, (list, str)) and want["contains"] in cur):
                return False
        else:
            if cur != want:
                return False
    return True


def match_known(known, prop, clause, rec):
    for k in known:
        if k.get("status", "open") != "open":
            continue
        if k["property"] != prop:
            continue
        if clause not in k.get("clauses", [clause]):
            continue
        if _match_pred(k.get("trigger", {}), rec):
            return k
    return None


# ---------------------------------------------------------------------------------------------
# result aggregation
# ---------------------------------------------------------------------------------------------
class Result:
    def __init__(self, prop, tier, seed):
        self.prop, self.tier, self.seed = prop, tier, seed
        self.t0 = time.time()
        self.states = 0
        self.transitions = 0
        self.traces = 0
        self.evaluations = 0
        self.nontrivial = set()
        self.samples = []
        self.violations = []      # (clause, rec, extra)
        self.known_hits = {}      # finding id -> count
        self.clause_counts = {}   # clause -> [applicable, failed]
        self.mc = []              # design-level model checking runs
        self.notes = []
        self.classes = {}         # coverage class -> count
        self.exhaustive = False
        self.rule = ""
        self.assumptions = []
        os.makedirs(REPLAY, exist_ok=True)
        for f in os.listdir(REPLAY):
            if f.startswith(prop + "_") and not os.environ.get("VERIF_REPLAYING"):   # a replay must not delete replay files
                os.remove(os.path.join(REPLAY, f))

    def add_tlc(self, res):
        self.states += res["distinct"]
        self.transitions += res["states"]

    def count_class(self, name, n=1):
        self.classes[name] = self.classes.get(name, 0) + n

    def clause(self, c, applicable, failed):
        a = self.clause_counts.setdefault(c, [0, 0])
        a[0] += applicable
        a[1] += failed

    def violation(self, clause, rec, extra=None):
        self.violations.append((clause, rec, extra))

    def finish(self, known, level="model_checking", require_classes=()):
        os.makedirs(EVID, exist_ok=True)
        os.makedirs(REPLAY, exist_ok=True)
        new = []
        for clause, rec, extra in self.violations:
            k = match_known(known, self.prop, clause, rec)
            if k is not None:
                self.known_hits.setdefault(k["id"], [k, 0])[1] += 1
            else:
                new.append((clause, rec, extra))
        if not new:
            # (with violations to report, an empty class is a consequence of the defect, not a failure of the machinery)
            for c in require_classes:
                if self.classes.get(c, 0) == 0:
                    die(f"mandatory coverage class {c!r} is empty for {self.prop}: the check no longer exercises the property")
        for fid, (k, n) in sorted(self.known_hits.items()):
            print(f"KNOWN-FINDING: property={self.prop} id={fid} hits={n} {k['what']}")
        rc = 0
        shown = 0
        by_clause = {}
        for clause, rec, extra in new:
            by_clause.setdefault(clause, []).append((rec, extra))
        for clause, lst in sorted(by_clause.items()):
            for rec, extra in lst[:3]:
                rid = rec.get("id", "x")
                path = os.path.join(REPLAY, f"{self.prop}_{clause}_{rid}.json")
                with open(path, "w") as f:
                    json.dump({"property": self.prop, "clause": clause, "record": rec, "extra": extra}, f, indent=1, sort_keys=True)
                print(f"VIOLATION property={self.prop} replay={path} clause={clause} n={len(lst)}")
                shown += 1
            rc = 1
        ev = {
            "property_id": self.prop, "tier": self.tier, "seed": self.seed, "level": level,
            "coverage": {
                "states": max(self.states, 0), "transitions": max(self.transitions, 0),
                "traces_validated_against_impl": self.traces,
                "samples": self.samples[:4] or ["(none)"],
                "evaluations": self.evaluations, "distinct_nontrivial": len(self.nontrivial),
                "rule": self.rule, "exhaustive": self.exhaustive,
                "clauses": {c: {"applicable": a, "failed": f} for c, (a, f) in sorted(self.clause_counts.items())},
                "classes": self.classes, "design_model_checking": self.mc,
                "known_findings_hit": {fid: n for fid, (k, n) in self.known_hits.items()},
                "notes": self.notes,
            },
            "assumptions": self.assumptions or [
                "HiGHS (highspy 1.15) is the MILP solver inside the library and part of the system under test: what it returns is judged "
                "like any other result (one instance where its presolve cuts off the optimum is a known finding)",
                "TLC 1.8 and the CommunityModules Json/IOUtils modules are trusted",
                "instances above the stated bounds are not explored"],
            "wall_s": round(time.time() - self.t0, 2),
            "violations": len(new),
        }
        with open(os.path.join(EVID, f"{self.prop}.json"), "w") as f:
            json.dump(ev, f, indent=1, sort_keys=True)
        print(f"{self.prop}: tier={self.tier} traces={self.traces} states={self.states} transitions={self.transitions} "
              f"violations={len(new)} known={sum(n for _, n in self.known_hits.values())} wall={ev['wall_s']}s")
        return rc


def scratch_dir():
    base = os.environ.get("VERIF_SCRATCH") or os.path.join(VERIF, ".scratch")
    os.makedirs(base, exist_ok=True)
    return tempfile.mkdtemp(prefix="run_", dir=base)


# ---------------------------------------------------------------------------------------------
# universes (TLC-generated, cached by spec hash + parameters)
# ---------------------------------------------------------------------------------------------
UNIV = os.path.join(VERIF, "universe")


def universe(kind, n, maxe=0, k=3, w=3, l=0, cap=12, scheme="plain", parts=16, zero=False, path_only=False):
    """Instances (graph + planted flow) enumerated by TLC from spec/Universe.tla.  The result is cached in
    /verif/universe keyed by the parameters and the hash of the generating modules; a changed spec regenerates."""
    os.makedirs(UNIV, exist_ok=True)
    h = spec_hash("Graphs.tla", "Routes.tla", "Problems.tla", "Universe.tla", "Gen_Graphs.tla")
    name = f"{kind}_n{n}_e{maxe}_k{k}_w{w}_l{l}_c{cap}_{scheme}{'_z' if zero else ''}_{h}.ndjson"
    path = os.path.join(UNIV, name)
    if path_only and os.path.exists(path):
        return path
    if os.path.exists(path):
        return read_ndjson(path)
    sc = scratch_dir()
    parts = parts if kind == "cyc" and n >= 4 else (6 if kind == "motif" else 1)
    outs = [os.path.join(sc, f"u{p}.ndjson") for p in range(parts)]

    def one(p):
        env = {"GEN_KIND": kind, "GEN_N": str(n), "GEN_MAXE": str(maxe), "GEN_K": str(k), "GEN_W": str(w),
               "GEN_L": str(l), "GEN_CAP": str(cap), "GEN_SCHEME": scheme, "GEN_PART": str(p),
               "GEN_PARTS": str(parts), "OUT_FILE": outs[p], "GEN_ZERO": "1" if zero else "0"}
        return run_tlc("Gen_Graphs", "Gen.cfg", env=env, timeout=3000, scratch=sc)
    with ThreadPoolExecutor(max_workers=16) as ex:
        rs = list(ex.map(one, range(parts)))
    recs = []
    for p, r in enumerate(rs):
        if not tlc_ok(r) or not os.path.exists(outs[p]):
            raise Machinery("universe generation failed: " + r["stdout"][-1500:])
        recs += read_ndjson(outs[p])
    recs.sort(key=lambda r: json.dumps(r, sort_keys=True))
    write_ndjson(path, recs)
    shutil.rmtree(sc, ignore_errors=True)
    return path if path_only else recs


# ---------------------------------------------------------------------------------------------
# model records: syntactic defaults so that the trace spec can read every field
# ---------------------------------------------------------------------------------------------
CLASS_DEFAULT_WT = {"MinFlowDecompCycles": "int"}


def normalize_model_rec(r):
    r = dict(r)
    r.setdefault("mode", "edge")
    r.setdefault("wt", CLASS_DEFAULT_WT.get(r["cls"], "float"))
    r.setdefault("num", 1)
    r.setdefault("den", 1)
    r.setdefault("k", NONE)
    if r["k"] is None:
        r["k"] = NONE
    for key in ("ign", "cons", "starts", "ends", "escale", "sws", "plr", "plf", "nw", "ew"):
        r.setdefault(key, [])
    r.setdefault("cov", [1, 1])
    r.setdefault("covlen", [0, 1])     # [0, 1] = length coverage not requested
    r.setdefault("elen", [])           # edge lengths parallel to edges (NONE = attribute absent), [] = no lengths
    r.setdefault("nlen", [])           # node lengths parallel to nodes (node mode), same convention
    r.setdefault("lenattr", False)     # length_attr passed for its own sake (path-length factors)
    r.setdefault("cons_kind", "edge")
    r.setdefault("ignpct", -1)         # elements_to_ignore_percentile (integer percent), -1 = not given
    r.setdefault("opt", {})
    r.setdefault("faults", {})
    r.setdefault("expect_solved", False)
    r.setdefault("k_none", False)
    r.setdefault("documented_incompat", False)
    r.setdefault("sol_list", [])
    r.setdefault("sol_list_types", [])
    r.setdefault("nodes", [])
    r.setdefault("edges", [])
    r.setdefault("proutes", [])
    r.setdefault("pweights", [])
    # TLC cannot read JSON null / floats: make sure none slipped through
    def chk(x, path="$"):
        if x is None:
            raise Machinery(f"null in record at {path}")
        if isinstance(x, float):
            raise Machinery(f"float in record at {path}")
        if isinstance(x, dict):
            for k, v in x.items():
                chk(v, path + "." + str(k))
        if isinstance(x, list):
            for i, v in enumerate(x):
                chk(v, f"{path}[{i}]")
    chk(r)
    return r


def validate_records(module, cfg, recs, prop, res, nshards=16, extra_env=None, timeout=1800, key="id"):
    """Write recs into shards, run TLC trace validation, return {id: (applicable, failed)}."""
    sc = scratch_dir()
    files = []
    for i, sh in enumerate(shard(recs, nshards)):
        p = os.path.join(sc, f"shard{i}.ndjson")
        write_ndjson(p, sh)
        files.append(p)
    env = {"VERIF_PROP": prop}
    env.update(extra_env or {})
    rs = run_shards(module, cfg, files, env, timeout=timeout)
    verdicts = {}
    for r in rs:
        if not tlc_ok(r):
            raise Machinery(f"TLC failed on {module}: " + r["stdout"][-3000:])
        res.add_tlc(r)
        for v in extract_tagged(r["stdout"], tags=("VERDICT",)):
            verdicts[v[1]] = (setlist(v[2]), setlist(v[3]))
    if len(verdicts) != len(recs):
        raise Machinery(f"{module}: {len(verdicts)} verdicts for {len(recs)} records")
    shutil.rmtree(sc, ignore_errors=True)
    return verdicts


def validate_groups(recs, prop, res, nshards=16, timeout=1800):
    """Trace_Groups: records sharing `grp` must agree (first run fixes the outcome). Returns {grp: (clauses, failed)}."""
    for r in recs:
        r.setdefault("cmp", [1, 1])
        r.setdefault("skip", False)
        r.setdefault("timeout", False)
    groups = {}
    for r in recs:
        groups.setdefault(r["grp"], []).append(r)
    glist = list(groups.values())
    sc = scratch_dir()
    files = []
    for i, sh in enumerate(shard(glist, nshards)):
        p = os.path.join(sc, f"g{i}.ndjson")
        write_ndjson(p, [r for g in sh for r in g])
        files.append(p)
    rs = run_shards("Trace_Groups", "Groups.cfg", files, {"VERIF_PROP": prop}, timeout=timeout)
    verdicts = {}
    for r in rs:
        if not tlc_ok(r):
            raise Machinery("TLC failed on Trace_Groups: " + r["stdout"][-3000:])
        res.add_tlc(r)
        for v in extract_tagged(r["stdout"], tags=("VERDICT",)):
            verdicts[v[1]] = (setlist(v[2]), setlist(v[3]))
    if len(verdicts) != len(groups):
        raise Machinery(f"Trace_Groups: {len(verdicts)} verdicts for {len(groups)} groups")
    shutil.rmtree(sc, ignore_errors=True)
    byid = {r["id"]: r for r in recs}
    for g, (cl, failed) in verdicts.items():
        res.traces += 1
        for c in cl:
            res.clause(c, 1, 1 if any(f[0] == c for f in failed) else 0)
        for (c, rid) in failed:
            rec = dict(byid[rid])
            first = min(groups[g], key=lambda r: r["id"])
            res.violation(c, rec, {"reference_run": {k: first.get(k) for k in
                                   ("id", "opt", "wt", "num", "den", "solved", "routes", "weights", "obj", "mode", "ign", "escale")}})
    return verdicts


def euler_universe(n, maxe, l, cap, scheme="plain", parts=16):
    """Eulerian s-t multigraphs (C14) enumerated by Gen_Euler.tla; cached like universe()."""
    os.makedirs(UNIV, exist_ok=True)
    h = spec_hash("Graphs.tla", "Routes.tla", "Problems.tla", "Universe.tla", "Gen_Euler.tla")
    path = os.path.join(UNIV, f"euler_n{n}_e{maxe}_l{l}_c{cap}_{scheme}_{h}.ndjson")
    if os.path.exists(path):
        return read_ndjson(path)
    sc = scratch_dir()
    parts = parts if n >= 4 else 1
    outs = [os.path.join(sc, f"e{p}.ndjson") for p in range(parts)]

    def one(p):
        env = {"GEN_N": str(n), "GEN_MAXE": str(maxe), "GEN_L": str(l), "GEN_CAP": str(cap), "GEN_SCHEME": scheme,
               "GEN_PART": str(p), "GEN_PARTS": str(parts), "OUT_FILE": outs[p]}
        return run_tlc("Gen_Euler", "Gen.cfg", env=env, timeout=3000, scratch=sc)
    with ThreadPoolExecutor(max_workers=16) as ex:
        rs = list(ex.map(one, range(parts)))
    recs = []
    for p, r in enumerate(rs):
        if not tlc_ok(r) or not os.path.exists(outs[p]):
            raise Machinery("euler universe generation failed: " + r["stdout"][-1500:])
        recs += read_ndjson(outs[p])
    recs.sort(key=lambda r: json.dumps(r, sort_keys=True))
    write_ndjson(path, recs)
    shutil.rmtree(sc, ignore_errors=True)
    return recs
