-------------------------------- MODULE Euler --------------------------------
(***************************************************************************)
(* The walk reconstruction of AbstractWalkModelDiGraph (C14) as a state    *)
(* machine: Hierholzer's algorithm as the code runs it.                    *)
(*                                                                         *)
(*   Main        follow unused edges from the source until stuck           *)
(*               (_reconstruct_eulerian_walk, first loop)                  *)
(*   Scan        pop a vertex from the stack; if it has unused out-edges   *)
(*               start a closed walk there (second loop)                   *)
(*   Closed      extend the closed walk until it returns to its start or   *)
(*               gets stuck (_build_closed_walk_from_vertex)               *)
(*   Splice      insert the closed walk after the FIRST occurrence of its  *)
(*               start vertex in the walk                                  *)
(*                                                                         *)
(* The code pops the LAST remaining out-neighbour; the specification lets  *)
(* any remaining out-edge be taken (a superset of the code's behaviours),  *)
(* so the design-level result covers every list order.                     *)
(*                                                                         *)
(* Instances (records of TRACE_FILE): nodes, edges of the AUGMENTED graph  *)
(* (synthetic ends SRC/SNK) and a multiplicity per edge, produced by       *)
(* Gen_Euler.tla as the traversal counts of an SRC-SNK walk - exactly the  *)
(* assignments that are balanced at inner nodes, leave the source once     *)
(* and are connected.                                                      *)
(*                                                                         *)
(* Checked (MC_Euler.cfg):  DoneOK  - at termination the walk is one       *)
(* SRC..SNK walk using every edge exactly its multiplicity;  NoStuck -     *)
(* the machine terminates only in Done (deadlock check).                   *)
(***************************************************************************)
EXTENDS Routes, Json, IOUtils, TLC

Recs == ndJsonDeserialize(IOEnv.TRACE_FILE)

VARIABLES tid, rem, walk, stack, pc, closed, cstart
vars == <<tid, rem, walk, stack, pc, closed, cstart>>

R == Recs[tid]
EdgesOf(r) == ToSet(r.edges)
Mult(r) == [e \in EdgesOf(r) |-> r.mult[CHOOSE i \in 1..Len(r.edges) : r.edges[i] = e]]
OutRem(v) == {e \in EdgesOf(R) : e[1] = v /\ rem[e] > 0}
FirstIndex(s, v) == CHOOSE i \in 1..Len(s) : s[i] = v /\ \A k \in 1..(i - 1) : s[k] # v

Init ==
  /\ tid \in DOMAIN Recs
  /\ rem = Mult(Recs[tid])
  /\ walk = <<SRC>> /\ stack = <<>> /\ pc = "main" /\ closed = <<>> /\ cstart = SRC

Main ==
  /\ pc = "main"
  /\ IF OutRem(Last(walk)) # {}
     THEN \E e \in OutRem(Last(walk)) :
            /\ rem' = [rem EXCEPT ![e] = @ - 1]
            /\ stack' = Append(stack, Last(walk))
            /\ walk' = Append(walk, e[2])
            /\ UNCHANGED <<pc, closed, cstart>>
     ELSE /\ pc' = "scan" /\ UNCHANGED <<rem, walk, stack, closed, cstart>>
  /\ UNCHANGED tid

Scan ==
  /\ pc = "scan"
  /\ IF stack = <<>>
     THEN pc' = "done" /\ UNCHANGED <<rem, walk, stack, closed, cstart>>
     ELSE LET v == Last(stack) IN
          /\ stack' = SubSeq(stack, 1, Len(stack) - 1)
          /\ IF OutRem(v) # {}
             THEN pc' = "closed" /\ closed' = <<v>> /\ cstart' = v
             ELSE pc' = "scan" /\ UNCHANGED <<closed, cstart>>
          /\ UNCHANGED <<rem, walk>>
  /\ UNCHANGED tid

Closed ==
  /\ pc = "closed"
  /\ LET v == Last(closed) IN
     IF OutRem(v) # {} /\ ~(Len(closed) > 1 /\ v = cstart)
     THEN \E e \in OutRem(v) :
            /\ rem' = [rem EXCEPT ![e] = @ - 1]
            /\ stack' = Append(stack, v)
            /\ closed' = Append(closed, e[2])
            /\ UNCHANGED <<pc, walk, cstart>>
     ELSE \* Splice: insert closed[2..] after the first occurrence of cstart
          LET i == FirstIndex(walk, cstart) IN
          /\ walk' = SubSeq(walk, 1, i) \o SubSeq(closed, 2, Len(closed)) \o SubSeq(walk, i + 1, Len(walk))
          /\ pc' = "scan" /\ closed' = <<>>
          /\ UNCHANGED <<rem, stack, cstart>>
  /\ UNCHANGED tid

Next == Main \/ Scan \/ Closed
Spec == Init /\ [][Next]_vars /\ WF_vars(Next)

UsedExactly == \A e \in EdgesOf(R) : Count(e, walk) = Mult(R)[e]
IsSTWalk == /\ walk[1] = SRC /\ Last(walk) = SNK
            /\ \A i \in 1..(Len(walk) - 1) : <<walk[i], walk[i+1]>> \in EdgesOf(R)
DoneOK == pc = "done" => (UsedExactly /\ IsSTWalk /\ \A e \in EdgesOf(R) : rem[e] = 0)
(* partial correctness along the way: edges already placed never exceed their multiplicity *)
NeverOveruse == \A e \in EdgesOf(R) : Count(e, walk) + Count(e, closed) + rem[e] = Mult(R)[e]
Terminates == <>(pc = "done")
=============================================================================
