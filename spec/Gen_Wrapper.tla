----------------------------- MODULE Gen_Wrapper -----------------------------
(* Call histories of the SolverWrapper for C12: behaviours of Wrapper.tla produced by `tlc -simulate`, with the
   operations recorded in the history variable h and printed when a behaviour reaches depth D. *)
EXTENDS Wrapper, SequencesExt

CONSTANT D
VARIABLE h
gvars == <<created, lb, ub, cost, offset, sense, pfix, plb, status, snap, h>>

PairsOf(c) == SetToSeq({<<v, c[v]>> : v \in DOMAIN c})

GInit == WInit /\ h = <<>>
GNext ==
  \/ \E v \in Vars, l, u \in Vals : AddVar(v, l, u) /\ h' = Append(h, <<"add", v, l, u>>)
  \/ \E v \in Vars, x \in Vals : QueueFix(v, x) /\ h' = Append(h, <<"fix", v, x>>)
  \/ \E v \in Vars, x \in Vals : QueueLB(v, x) /\ h' = Append(h, <<"lb", v, x>>)
  \/ \E Dm \in {CreatedSet} \cup {{v} : v \in CreatedSet} \cup {{}} : \E c \in [Dm -> {-1, 0, 2}], k \in Offsets, s \in {"minimize", "maximize"} :
        SetObjective(c, k, s) /\ h' = Append(h, <<"obj", PairsOf(c), s, k>>)
  \/ Optimize /\ h' = Append(h, <<"opt">>)
  \/ \E S \in (SUBSET Vars) \ {{}} : GetValues(S) /\ h' = Append(h, <<"get", SetToSeq(S)>>)
GSpec == GInit /\ [][GNext]_gvars

Emit == (Len(h) = D) => PrintT(<<"HISTORY", h>>)
=============================================================================
