---------------------------- MODULE Trace_Wrapper ----------------------------
(***************************************************************************)
(* C12, histories: a recorded call history of the real SolverWrapper is    *)
(* replayed through the actions of Wrapper.tla; after every call the       *)
(* backend state the harness read back (column bounds, costs, sense,       *)
(* status, objective value, values returned) must equal the specification  *)
(* state.  One record = one history; <<"VERDICT", id, clauses, failed>>.   *)
(***************************************************************************)
EXTENDS Wrapper, Json, IOUtils, SequencesExt

UNIT == 10000
Recs == ndJsonDeserialize(IOEnv.TRACE_FILE)
VARIABLES tid, l, bad
tvars == <<created, lb, ub, cost, offset, sense, pfix, plb, status, snap, tid, l, bad>>
R == Recs[tid]
Op == R.ops[l]
Ob == R.obs[l]

CoefFun(pairs) == [v \in {pairs[i][1] : i \in 1..Len(pairs)} |->
                     (CHOOSE i \in 1..Len(pairs) : pairs[i][1] = v) ]
Coefs(pairs) == [v \in DOMAIN CoefFun(pairs) |-> pairs[CoefFun(pairs)[v]][2]]

TInit == /\ tid \in DOMAIN Recs /\ WInit /\ l = 1 /\ bad = {}

(* the specification action named by the logged call, with the logged arguments *)
Apply ==
  CASE Op[1] = "add" -> AddVar(Op[2], Op[3], Op[4])
    [] Op[1] = "fix" -> QueueFix(Op[2], Op[3])
    [] Op[1] = "lb"  -> QueueLB(Op[2], Op[3])
    [] Op[1] = "obj" -> SetObjective(Coefs(Op[2]), Op[4], Op[3])
    [] Op[1] = "opt" -> Optimize
    [] Op[1] = "get" -> GetValues(ToSet(Op[2]))

(* what was read back from the real wrapper after the call vs. the specification's next state *)
ColsMatch == /\ Ob.order = created'
             /\ \A i \in 1..Len(created') :
                  LET v == created'[i] IN
                  /\ Ob.cols[i][1] = lb'[v] * UNIT /\ Ob.cols[i][2] = ub'[v] * UNIT /\ Ob.cols[i][3] = cost'[v] * UNIT
SenseMatch == Ob.sense = sense'
StatusMatch == Op[1] = "opt" => Ob.status = (IF status' = "Optimal" THEN "kOptimal" ELSE "kInfeasible")
ObjMatch == (Op[1] = "opt" /\ status' = "Optimal") =>
               Ob.objval = UNIT * (offset' + LET RECURSIVE S(_)
                                       S(i) == IF i = 0 THEN 0 ELSE S(i - 1) + cost'[created'[i]] *
                                                 (IF cost'[created'[i]] = 0 THEN 0
                                                  ELSE IF (cost'[created'[i]] > 0) = (sense' = "minimize") THEN lb'[created'[i]] ELSE ub'[created'[i]])
                                   IN S(Len(created')))
ValuesMatch == Op[1] = "get" =>
                 /\ ToSet(Ob.keys) = ToSet(Op[2])
                 /\ \A i \in 1..Len(Ob.vals) :
                      LET v == Ob.vals[i][1] IN
                      /\ Ob.vals[i][2] >= lb'[v] * UNIT /\ Ob.vals[i][2] <= ub'[v] * UNIT
                      /\ (OptValue(v) # -1 => Ob.vals[i][2] = OptValue(v) * UNIT)

Mismatch == {c \in {"NoException", "ColumnBounds", "Sense", "Status", "ObjectiveValue", "ValuesRead"} :
               CASE c = "NoException" -> Ob.exc # "none"
                 [] c = "ColumnBounds" -> ~ColsMatch
                 [] c = "Sense" -> ~SenseMatch
                 [] c = "Status" -> ~StatusMatch
                 [] c = "ObjectiveValue" -> ~ObjMatch
                 [] c = "ValuesRead" -> ~ValuesMatch}

Step == /\ l <= Len(R.ops)
        /\ Apply
        /\ bad' = bad \cup Mismatch
        /\ l' = l + 1 /\ UNCHANGED tid
(* a logged call the specification cannot take (never for generated histories) *)
Stuck == /\ l <= Len(R.ops) /\ ~ENABLED Apply
         /\ bad' = bad \cup {"OpNotEnabledInSpec"} /\ l' = Len(R.ops) + 1
         /\ UNCHANGED <<created, lb, ub, cost, offset, sense, pfix, plb, status, snap, tid>>
TNext == Step \/ Stuck
TSpec == TInit /\ [][TNext]_tvars

AllClauses == {"NoException", "ColumnBounds", "Sense", "Status", "ObjectiveValue", "ValuesRead", "OpNotEnabledInSpec"}
Verdict == (l > Len(R.ops)) => PrintT(<<"VERDICT", R.id, AllClauses, bad>>)
=============================================================================
