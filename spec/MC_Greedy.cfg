SPECIFICATION Spec
INVARIANT Conserving
INVARIANT DoneMeansZero
INVARIANT AtMostEminusV
PROPERTY Terminates
CHECK_DEADLOCK FALSE
