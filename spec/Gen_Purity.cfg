SPECIFICATION PSpec
CONSTANTS
  NCls = 16
  D = 7
CONSTRAINT Emit
INVARIANT PoolUnchanged
CHECK_DEADLOCK FALSE
