SPECIFICATION PSpec
CONSTANTS
  NCls = 17
  D = 7
CONSTRAINT Emit
INVARIANT PoolUnchanged
CHECK_DEADLOCK FALSE
