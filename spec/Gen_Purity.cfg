SPECIFICATION PSpec
CONSTANTS
  NCls = 14
  D = 7
CONSTRAINT Emit
INVARIANT PoolUnchanged
CHECK_DEADLOCK FALSE
