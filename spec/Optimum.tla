------------------------------ MODULE Optimum ------------------------------
(***************************************************************************)
(* The "effective instance" behind a model run, as mathematics, shared by  *)
(* the adversary machines (Adv_Peel, Adv_Cover, Adv_Fit):                  *)
(*                                                                         *)
(*   EG     the graph the routes live in (the caller's graph, or its       *)
(*          node expansion Graphs!Expand for node-weighted input)          *)
(*   Req    the elements (edges of EG) whose value must be explained /     *)
(*          covered: not ignored, carrying a value                         *)
(*   Val    their integer values                                           *)
(*   AG     Augment(EG, starts, ends): routes are SRC..SNK walks of AG     *)
(*   Cons   constraints as sequences of EG edges, coverage n/d             *)
(*                                                                         *)
(* A record r has: nodes, edges, ew | nw, mode, ign, cons, cons_kind, cov, *)
(* starts, ends, escale, cls.                                              *)
(***************************************************************************)
EXTENDS Problems

NONE == -999999

CoverClasses == {"kPathCover", "MinPathCover", "kPathCoverCycles", "MinPathCoverCycles"}
DAGClasses   == {"MinFlowDecomp", "kFlowDecomp", "kMinPathError", "kLeastAbsErrors", "kPathCover", "MinPathCover"}

UGraph(r) == MkGraph(ToSet(r.nodes), ToSet(r.edges))
IsNodeMode(r) == r.mode = "node"
EG(r) == IF IsNodeMode(r) THEN Expand(UGraph(r)) ELSE UGraph(r)

EIdx(r, e) == CHOOSE i \in 1..Len(r.edges) : r.edges[i] = e
NIdx(r, v) == CHOOSE i \in 1..Len(r.nodes) : r.nodes[i] = v

ZeroScaled(r) == {t[1] : t \in {s \in ToSet(r.escale) : s[2] = 0}}
UIgnored(r) == ToSet(r.ign) \cup ZeroScaled(r) \cup PctIgnored(r)     \* user-level ignored elements (listed, zero-scaled, below the percentile)

(* required edges of EG and their values *)
Req(r) ==
  IF IsNodeMode(r)
  THEN {ExpandedNodeEdge(v) : v \in {x \in ToSet(r.nodes) \ UIgnored(r) :
                                       r.cls \in CoverClasses \/ r.nw[NIdx(r, x)] # NONE}}
  ELSE {e \in ToSet(r.edges) \ UIgnored(r) : r.cls \in CoverClasses \/ r.ew[EIdx(r, e)] # NONE}

NodeOfExpanded(r, e) == CHOOSE v \in ToSet(r.nodes) : ExpandedNodeEdge(v) = e
Val(r) ==
  [e \in Req(r) |-> IF r.cls \in CoverClasses THEN 1
                    ELSE IF IsNodeMode(r) THEN r.nw[NIdx(r, NodeOfExpanded(r, e))]
                    ELSE r.ew[EIdx(r, e)]]

EStarts(r) == IF IsNodeMode(r) THEN {Dot0(v) : v \in ToSet(r.starts)} ELSE ToSet(r.starts)
EEnds(r)   == IF IsNodeMode(r) THEN {Dot1(v) : v \in ToSet(r.ends)} ELSE ToSet(r.ends)
AG(r) == Augment(EG(r), EStarts(r), EEnds(r))

(* a user-level constraint as a sequence of EG edges *)
ExpandCons(r, c) ==
  IF ~IsNodeMode(r) THEN c
  ELSE IF r.cons_kind = "node"
       THEN [i \in 1..Len(c) |-> ExpandedNodeEdge(c[i])]
       ELSE \* edge-form constraint in node mode: node-edge(u), link, node-edge(v) per listed edge
            LET RECURSIVE X(_)
                X(i) == IF i > Len(c) THEN <<>>
                        ELSE <<ExpandedNodeEdge(c[i][1]), ExpandedLinkEdge(c[i])>>
                             \o (IF i = Len(c) THEN <<ExpandedNodeEdge(c[i][2])>> ELSE <<>>)
                             \o X(i + 1)
            IN X(1)
ECons(r) == [j \in 1..Len(r.cons) |-> ExpandCons(r, r.cons[j])]

(* constraint j honoured by the set `hit` of EG edges used by one route *)
HonouredBy(r, c, hit) ==
  LET n == r.cov[1]  d == r.cov[2] IN
  IF r.cls \in DAGClasses /\ UsesLengthCoverage(r)
  THEN HonouredByLength(r, c, {j \in 1..Len(c) : c[j] \in hit})
  ELSE IF r.cls \in DAGClasses
  THEN Cardinality({j \in 1..Len(c) : c[j] \in hit}) * d >= Len(c) * n
  ELSE Cardinality(ToSet(c) \cap hit) * d >= Cardinality(ToSet(c)) * n

MaxVal(r) == IF Req(r) = {} THEN 0 ELSE Max({Val(r)[e] : e \in Req(r)})
=============================================================================
