---------------------------- MODULE Trace_Safety ----------------------------
(***************************************************************************)
(* C06: every safe path / sequence the library computed, every assignment  *)
(* of sequences to solution slots and every pruned (slot, edge) pair,      *)
(* validated against Safety.tla.                                           *)
(* Record: nodes, edges (caller's graph), starts, ends, aug_edges (what    *)
(* the library's s-t graph contains, synthetic ends renamed "S-star"/"T-star"),*)
(* items (trusted items, each a sequence of edges), seqs (returned         *)
(* sequences), slots (sequences assigned to slots 0..), zero ([u,v,slot]), *)
(* one ([u,v,slot]).                                                       *)
(***************************************************************************)
EXTENDS Safety, Json, IOUtils, TLC

Recs == ndJsonDeserialize(IOEnv.TRACE_FILE)
VARIABLE tid

UG(r) == MkGraph(ToSet(r.nodes), ToSet(r.edges))
A(r) == Augment(UG(r), ToSet(r.starts), ToSet(r.ends))
Items(r) == ToSet(r.items)

Clauses == {"AugmentMatches", "SeqEdgesInGraph", "Safe", "SlotsSafe", "Incompatible", "PruneSound", "OneInSlotSeq"}

Applicable(c, r) ==
  CASE c = "AugmentMatches" -> r.aug_edges # <<>>
    [] c = "SeqEdgesInGraph" -> r.seqs # <<>> \/ r.slots # <<>>
    [] c = "Safe" -> r.seqs # <<>>
    [] c = "SlotsSafe" -> r.slots # <<>>
    [] c = "Incompatible" -> Len(r.slots) >= 2
    [] c = "PruneSound" -> r.zero # <<>>
    [] c = "OneInSlotSeq" -> r.one # <<>>
    [] OTHER -> FALSE

Holds(c, r) ==
  LET a == A(r) IN
  CASE c = "AugmentMatches" -> ToSet(r.aug_edges) = a.edges
    [] c = "SeqEdgesInGraph" -> /\ \A i \in 1..Len(r.seqs) : ToSet(r.seqs[i]) \subseteq a.edges
                                /\ \A i \in 1..Len(r.slots) : ToSet(r.slots[i]) \subseteq a.edges
    [] c = "Safe" -> \A i \in 1..Len(r.seqs) : SafeFor(a, r.seqs[i], Items(r))
    [] c = "SlotsSafe" -> \A i \in 1..Len(r.slots) : r.slots[i] = <<>> \/ SafeFor(a, r.slots[i], Items(r))
    [] c = "Incompatible" -> \A i, j \in 1..Len(r.slots) :
                                (i < j /\ r.slots[i] # <<>> /\ r.slots[j] # <<>>) => ~Compatible(a, r.slots[i], r.slots[j])
    [] c = "PruneSound" -> \A t \in ToSet(r.zero) :
                              (t[3] + 1 \in 1..Len(r.slots) /\ r.slots[t[3] + 1] # <<>>)
                              /\ PruneSound(a, r.slots[t[3] + 1], <<t[1], t[2]>>)
    [] c = "OneInSlotSeq" -> \A t \in ToSet(r.one) :
                              t[3] + 1 \in 1..Len(r.slots) /\ <<t[1], t[2]>> \in ToSet(r.slots[t[3] + 1])
    [] OTHER -> TRUE

App(r) == {c \in Clauses : Applicable(c, r)}
Fails(r) == {c \in App(r) : ~Holds(c, r)}
Init == /\ tid \in DOMAIN Recs
        /\ PrintT(<<"VERDICT", Recs[tid].id, App(Recs[tid]), Fails(Recs[tid])>>)
Next == FALSE /\ tid' = tid
Spec == Init /\ [][Next]_tid
=============================================================================
