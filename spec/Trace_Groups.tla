---------------------------- MODULE Trace_Groups ----------------------------
(***************************************************************************)
(* Equivalence of runs (C04 scaling, C05 options, C10, C11, C18): a trace  *)
(* is the list of runs of ONE input under different configurations         *)
(* (records sharing the field grp).  The state machine consumes the runs   *)
(* of a group one by one; the first run fixes the outcome (solved?,        *)
(* objective), every later event must reproduce it - the action property   *)
(* Agree.  Rejected groups are reported as                                 *)
(*     <<"VERDICT", grp, {applicable}, {failed}>>                          *)
(***************************************************************************)
EXTENDS Problems, Json, IOUtils, TLC

NONE == -999999
Recs == ndJsonDeserialize(IOEnv.TRACE_FILE)
PROP == IOEnv.VERIF_PROP

Groups == {Recs[i].grp : i \in DOMAIN Recs}
Members(g) == {i \in DOMAIN Recs : Recs[i].grp = g}

Solved(r) == r.solved = TRUE
NRoutes(r) == Cardinality({i \in 1..Len(r.routes) : Len(r.routes[i]) >= 1})
(* comparable objective in fixed point; cmpscale = <<n, d>> lets a run on c*f be compared with the run on f *)
Obj(r) == r.obj
Tol(r) == IF r.wt = "int" THEN 0 ELSE 5 * (1 + NRoutes(r)) * (1 + Len(r.edges))

SameSolved(a, b) == Solved(a) = Solved(b)
SameCount(a, b)  == (Solved(a) /\ Solved(b)) => NRoutes(a) = NRoutes(b)
SameObj(a, b)    == (Solved(a) /\ Solved(b) /\ Obj(a) # NONE /\ Obj(b) # NONE)
                       => Abs(Obj(a) * b.cmp[1] * a.cmp[2] - Obj(b) * a.cmp[1] * b.cmp[2])
                            <= Max2(Tol(a), Tol(b)) * a.cmp[1] * b.cmp[1] * a.cmp[2] * b.cmp[2]
Usable(r) == r.timeout = FALSE /\ r.skip = FALSE

(* a float-weighted run can only be as good or better than the integer-weighted run of the same input *)
FloatNoWorse(a, b) ==
  (Solved(a) /\ Solved(b) /\ a.wt = "int" /\ b.wt = "float" /\ Obj(a) # NONE /\ Obj(b) # NONE)
     => Obj(b) * a.cmp[1] * b.cmp[2] <= Obj(a) * b.cmp[1] * a.cmp[2]
                                        + Tol(b) * a.cmp[1] * b.cmp[1] * a.cmp[2] * b.cmp[2]
IntSolvedImpliesFloatSolved(a, b) == (a.wt = "int" /\ b.wt = "float" /\ Solved(a)) => Solved(b)

Clauses == CASE PROP = "C04" -> {"SameSolved", "SameCount"}
             [] PROP \in {"C07", "C08"} -> {"FloatNoWorse", "IntSolvedImpliesFloatSolved"}
             [] OTHER -> {"SameSolved", "SameObj"}

Holds(c, a, b) == CASE c = "SameSolved" -> SameSolved(a, b)
                    [] c = "SameCount"  -> SameCount(a, b)
                    [] c = "SameObj"    -> SameObj(a, b)
                    [] c = "FloatNoWorse" -> FloatNoWorse(a, b)
                    [] c = "IntSolvedImpliesFloatSolved" -> IntSolvedImpliesFloatSolved(a, b)

VARIABLES grp, first, pending, failed
vars == <<grp, first, pending, failed>>

Init == /\ grp \in Groups
        /\ LET M == {i \in Members(grp) : Usable(Recs[i])} IN
           /\ first = IF M = {} THEN 0 ELSE CHOOSE i \in M : \A j \in M : Recs[i].id <= Recs[j].id
           /\ pending = M \ {first}
        /\ failed = {}

Consume(i) ==
  /\ i \in pending
  /\ pending' = pending \ {i}
  /\ failed' = failed \cup {<<c, Recs[i].id>> : c \in {c \in Clauses : ~Holds(c, Recs[first], Recs[i])}}
  /\ UNCHANGED <<grp, first>>

Done == pending = {}
Report == /\ Done
          /\ PrintT(<<"VERDICT", grp, IF first = 0 THEN {} ELSE Clauses, failed>>)
          /\ UNCHANGED vars

(* consume in id order: deterministic, linear *)
Next == \/ \E i \in pending : (\A j \in pending : Recs[i].id <= Recs[j].id) /\ Consume(i)
Spec == Init /\ [][Next]_vars

(* verdict printed exactly once per group, when the last event is consumed *)
Verdict == Done => PrintT(<<"VERDICT", grp, IF first = 0 THEN {} ELSE Clauses, failed>>)
=============================================================================
