SPECIFICATION Spec
CONSTANT D = 5
CONSTRAINT Emit
CHECK_DEADLOCK FALSE
