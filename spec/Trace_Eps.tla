------------------------------ MODULE Trace_Eps ------------------------------
(* C16: with a positive few-values epsilon the error stays within (1+eps) of the optimum (ref_error = the error of the
   epsilon-free run of the same input, itself validated as optimal by the bump adversary). *)
EXTENDS Integers, Sequences, Json, IOUtils, TLC
Recs == ndJsonDeserialize(IOEnv.TRACE_FILE)
VARIABLE tid
Within(r) == r.c_error * r.eps[2] <= r.ref_error * (r.eps[2] + r.eps[1]) + 5 * r.eps[2]
Fails(r) == IF Within(r) THEN {} ELSE {"WithinOnePlusEpsilon"}
Init == /\ tid \in DOMAIN Recs /\ PrintT(<<"VERDICT", Recs[tid].id, {"WithinOnePlusEpsilon"}, Fails(Recs[tid])>>)
Next == FALSE /\ tid' = tid
Spec == Init /\ [][Next]_tid
=============================================================================
