------------------------------- MODULE Gadgets -------------------------------
(***************************************************************************)
(* The MILP modelling helpers of the solver wrapper (C12) as relations on  *)
(* the integer grid.                                                       *)
(*                                                                         *)
(*  BinRows(b,c,p,ub)    the four McCormick rows of                        *)
(*                       add_binary_continuous_product_constraint (lb=0)   *)
(*  IntRows(x,c,p,ub)    bit expansion of x + one McCormick block per bit  *)
(*                       (add_integer_continuous_product_constraint)       *)
(*  PwRows(x,y,...)      one-hot range selection with big-M                *)
(*                       (add_piecewise_constant_constraint)               *)
(*                                                                         *)
(* Design theorems, model-checked exhaustively for ub <= U (MC_Gadgets):   *)
(*   BinExact:  b in {0,1}, 0<=c<=ub  ==>  (BinRows <=> p = b*c)           *)
(*   IntExact:  0<=x<=ub, 0<=c<=ub, x*c<=ub  ==>  (IntRows <=> p = x*c)    *)
(*   PwExact:   x in some range ==> (PwRows <=> y = its constant);         *)
(*              x in no range ==> ~PwRows                                  *)
(***************************************************************************)
EXTENDS Integers, Sequences, FiniteSets

BinRows(b, c, p, ub) ==
  /\ p <= ub * b
  /\ p >= 0
  /\ p <= c
  /\ p >= c - ub * (1 - b)

RECURSIVE Pow2(_)
Pow2(n) == IF n = 0 THEN 1 ELSE 2 * Pow2(n - 1)
RECURSIVE BitsFor(_, _)
BitsFor(ub, n) == IF Pow2(n) >= ub + 1 THEN n ELSE BitsFor(ub, n + 1)
NumBits(ub) == BitsFor(ub, 0)                 \* = ceil(log2(ub + 1))

Bit(x, i) == (x \div Pow2(i)) % 2
(* with integer c the comp variables are forced to bit*c by BinExact, so the existential over them collapses *)
IntRows(x, c, p, ub) ==
  LET nb == NumBits(ub) IN
  /\ x < Pow2(nb)                                                   \* x == sum of bits
  /\ \A i \in 0..(nb - 1) : Bit(x, i) * c <= ub                     \* comp_i within [0, ub]
  /\ p = LET RECURSIVE S(_)
             S(i) == IF i < 0 THEN 0 ELSE S(i - 1) + Bit(x, i) * c * Pow2(i)
         IN S(nb - 1)

PwRows(x, y, ranges, consts) ==
  LET M == 2 * ((CHOOSE m \in {ranges[i][2] : i \in 1..Len(ranges)} : \A j \in 1..Len(ranges) : ranges[j][2] <= m)
                - (CHOOSE m \in {ranges[i][1] : i \in 1..Len(ranges)} : \A j \in 1..Len(ranges) : ranges[j][1] >= m))
  IN \E z \in 1..Len(ranges) :       \* the one-hot choice
        /\ x >= ranges[z][1] /\ x <= ranges[z][2] /\ y = consts[z]
        /\ \A j \in (1..Len(ranges)) \ {z} :     \* the relaxed rows of the other pieces must not cut the point off
             /\ x >= ranges[j][1] - M /\ x <= ranges[j][2] + M
             /\ y <= consts[j] + M /\ y >= consts[j] - M
=============================================================================
