---------------------------- MODULE Trace_ErrFlow ----------------------------
(* C16 trace validation: the corrected graph returned by MinErrorFlow. *)
EXTENDS Optimum, Json, IOUtils, TLC
UNIT == 10000
Recs == ndJsonDeserialize(IOEnv.TRACE_FILE)
VARIABLE tid
Tol(r) == IF r.wt = "int" THEN 0 ELSE 5
Fx(r, w) == (w * r.num * UNIT) \div r.den
NodeM(r) == r.mode = "node"
Elems(r) == IF NodeM(r) THEN ToSet(r.nodes) ELSE ToSet(r.edges)
Datum(r, e) == IF NodeM(r) THEN r.nw[NIdx(r, e)] ELSE r.ew[EIdx(r, e)]
CVal(r, e) == LET S == {t \in ToSet(r.c_vals) : IF NodeM(r) THEN t[1] = e ELSE <<t[1], t[2]>> = e}
              IN IF S = {} THEN NONE ELSE (CHOOSE t \in S : TRUE)[IF NodeM(r) THEN 2 ELSE 3]
Counted(r) == {e \in Elems(r) \ UIgnored(r) : Datum(r, e) # NONE}
Sc(r, e) == LET S == {s \in ToSet(r.escale) : s[1] = e} IN IF S = {} THEN <<1, 1>> ELSE LET s == CHOOSE s \in S : TRUE IN <<s[2], s[3]>>
Inner(r) == {v \in ToSet(r.nodes) : In(UGraph(r), v) # {} /\ Out(UGraph(r), v) # {}} \ (ToSet(r.starts) \cup ToSet(r.ends))

(* a witness: edge values (parallel to r.edges, in the units of r.ew) the composer of the instance claims to be an admissible flow -
   the claim is re-validated here (non-negative, conserving at every inner node); the closest flow is then at most as far away *)
HasWitness(r) == "wit_ew" \in DOMAIN r /\ r.wit_ew # <<>> /\ ~NodeM(r) /\ r.lam = <<0, 1>> /\ r.eps = <<0, 1>>
WitVal(r, e) == r.wit_ew[EIdx(r, e)]
WitnessIsAFlow(r) ==
  /\ \A e \in ToSet(r.edges) : WitVal(r, e) >= 0
  /\ \A v \in Inner(r) : SumOver(In(UGraph(r), v), LAMBDA e : WitVal(r, e)) = SumOver(Out(UGraph(r), v), LAMBDA e : WitVal(r, e))
WitnessCost100(r) == SumOver(Counted(r), LAMBDA e : (Abs(Fx(r, Datum(r, e)) - Fx(r, WitVal(r, e))) * Sc(r, e)[1] * 100) \div Sc(r, e)[2])
Clauses(r) == IF r.solved = TRUE /\ r.sol_exc = "none"
              THEN {"Solved", "SameGraph", "NonNegative", "ErrorRecomputed", "ObjectiveRecomputed"}
                   \cup (IF ~NodeM(r) /\ \A e \in ToSet(r.edges) : Datum(r, e) # NONE THEN {"Conservation"} ELSE {})
                   \cup (IF HasWitness(r) THEN {"NoWorseThanWitness"} ELSE {})
              ELSE {"Solved"}
Holds(c, r) ==
  CASE c = "Solved" -> r.ctor_exc = "none" /\ r.solve_exc = "none" /\ r.solved = TRUE /\ r.sol_exc = "none"
    [] c = "SameGraph" -> ToSet(r.c_nodes) = ToSet(r.nodes) /\ ToSet(r.c_edges) = ToSet(r.edges)
    [] c = "NonNegative" -> \A e \in Elems(r) : Datum(r, e) # NONE => CVal(r, e) >= -Tol(r)
    [] c = "Conservation" ->
         \A v \in Inner(r) :
            Abs(SumOver(In(UGraph(r), v), LAMBDA e : CVal(r, e)) - SumOver(Out(UGraph(r), v), LAMBDA e : CVal(r, e)))
               <= Tol(r) * Cardinality(ToSet(r.edges))
    [] c = "ErrorRecomputed" ->
         Abs(r.c_error - SumOver(Counted(r), LAMBDA e : Abs(Fx(r, Datum(r, e)) - CVal(r, e)))) <= Tol(r) * (1 + Cardinality(Counted(r)))
    [] c = "ObjectiveRecomputed" ->
         r.lam = <<0, 1>> =>
         Abs(r.c_obj * 100 - SumOver(Counted(r), LAMBDA e : (Abs(Fx(r, Datum(r, e)) - CVal(r, e)) * Sc(r, e)[1] * 100) \div Sc(r, e)[2]))
            <= (Tol(r) * (1 + Cardinality(Counted(r))) + 1) * 100
    [] c = "NoWorseThanWitness" ->
         WitnessIsAFlow(r) => r.c_obj * 100 <= WitnessCost100(r) + (Tol(r) * (1 + Cardinality(Counted(r))) + 1) * 100
Fails(r) == {c \in Clauses(r) : ~Holds(c, r)}
Init == /\ tid \in DOMAIN Recs /\ PrintT(<<"VERDICT", Recs[tid].id, Clauses(Recs[tid]), Fails(Recs[tid])>>)
Next == FALSE /\ tid' = tid
Spec == Init /\ [][Next]_tid
=============================================================================
