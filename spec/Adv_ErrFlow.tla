----------------------------- MODULE Adv_ErrFlow -----------------------------
(***************************************************************************)
(* Minimum error flow (C16): the adversary moves the values of the edges   *)
(* away from the input one unit at a time; Bump(e, d) costs the error      *)
(* scale of e (nothing for ignored edges).  A state whose values are       *)
(* non-negative and conserve flow at every node with in- and out-edges     *)
(* that is not a declared start/end, reached with total cost below the     *)
(* observed objective, is a strictly closer flow: <<"WITNESS", id, cost>>. *)
(* (The problem is a convex min-cost flow with integral breakpoints, so an *)
(* integral optimum exists also for float weights.)  Costs are counted in  *)
(* units of 1/r.D so that scales n/d with d | D stay integral.             *)
(***************************************************************************)
EXTENDS Optimum, Json, IOUtils, TLC
UNIT == 10000
Recs == ndJsonDeserialize(IOEnv.TRACE_FILE)
VARIABLES tid, x, cost
R == Recs[tid]
E(r) == ToSet(r.edges)
F(r) == [e \in E(r) |-> r.ew[EIdx(r, e)]]
Free(r) == UIgnored(r) \cap E(r)
ScaleD(r, e) == LET S == {s \in ToSet(r.escale) : s[1] = e}
                IN IF e \in Free(r) THEN 0 ELSE IF S = {} THEN r.D
                   ELSE LET s == CHOOSE s \in S : TRUE IN (s[2] * r.D) \div s[3]
(* A declared start may emit extra flow (out >= in), a declared end may absorb it (in >= out): the corrected values
   are a flow of Graphs!Augment(G, starts, ends).  (The weaker reading "no requirement at all at starts/ends" would
   only enlarge the adversary's search space; the narrower one is used so that no witness depends on the reading.) *)
Inner(r) == {v \in ToSet(r.nodes) : In(UGraph(r), v) # {} /\ Out(UGraph(r), v) # {}}
Conserved(r, y) == \A v \in Inner(r) :
   LET i == SumOver(In(UGraph(r), v), LAMBDA e : y[e])
       o == SumOver(Out(UGraph(r), v), LAMBDA e : y[e])
   IN /\ (v \notin ToSet(r.starts) => o <= i)
      /\ (v \notin ToSet(r.ends) => i <= o)

Init == tid \in DOMAIN Recs /\ x = F(Recs[tid]) /\ cost = 0
Bump(e, d) ==
  /\ (d = 1 => x[e] >= F(R)[e]) /\ (d = -1 => x[e] <= F(R)[e])      \* monotone: never undo
  /\ x[e] + d >= 0 /\ x[e] + d <= R.cap
  /\ cost + ScaleD(R, e) <= R.bound
  /\ x' = [x EXCEPT ![e] = @ + d] /\ cost' = cost + ScaleD(R, e) /\ UNCHANGED tid
Next == \E e \in E(R), d \in {-1, 1} : Bump(e, d)
Spec == Init /\ [][Next]_<<tid, x, cost>>
Goal == Conserved(R, x)
Explore == IF Goal THEN PrintT(<<"WITNESS", R.id, cost>>) /\ FALSE ELSE TRUE
NonNeg == \A e \in E(R) : x[e] >= 0
=============================================================================
