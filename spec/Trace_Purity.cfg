SPECIFICATION Spec
CONSTRAINT Verdict
CHECK_DEADLOCK FALSE
