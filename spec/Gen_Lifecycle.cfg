SPECIFICATION GSpec
CONSTANT MaxK = 4
CONSTRAINT Report
CHECK_DEADLOCK FALSE
