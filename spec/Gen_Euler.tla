------------------------------ MODULE Gen_Euler ------------------------------
(* Eulerian s-t multigraphs for C14: for every cyclic shape (and DAG shapes) the traversal-count vectors of all
   SRC-SNK walks with at most |E| + GEN_L edges of the augmented graph; optionally with additional starts. *)
EXTENDS Universe, Json, IOUtils, TLC

N    == atoi(IOEnv.GEN_N)
MaxE == atoi(IOEnv.GEN_MAXE)
L    == atoi(IOEnv.GEN_L)
Cap  == atoi(IOEnv.GEN_CAP)
Part  == atoi(IOEnv.GEN_PART)
Parts == atoi(IOEnv.GEN_PARTS)
Nm   == NamesOf(IOEnv.GEN_SCHEME)

AllShapes == CycShapes(N, MaxE)
Shapes == LET s == SetToSeq(AllShapes) IN {s[i] : i \in {j \in 1..Len(s) : j % Parts = Part}}

Spread(S, cap) ==
  LET s == SetToSeq(S)  n == Len(s)
  IN IF n <= cap THEN S ELSE {s[1 + ((i * n) \div cap)] : i \in 0..(cap - 1)}

Name(v) == IF v = SRC \/ v = SNK THEN v ELSE Nm[v]

Inst(E) ==
  LET G == IdxGraph(E)
      A == [nodes |-> G.nodes \cup {0, -1},
            edges |-> G.edges \cup {<<0, v>> : v \in Sources(G)} \cup {<<v, -1>> : v \in Sinks(G)}]
      W == WalksFrom(A, 0, {-1}, Cardinality(A.edges) + L)
      es == SetToSeq(A.edges)
      vecs == {[i \in 1..Len(es) |-> Count(es[i], w)] : w \in W}
      nm(v) == IF v = 0 THEN SRC ELSE IF v = -1 THEN SNK ELSE Nm[v]
  IN [unodes |-> [i \in 1..Len(SetToSeq(G.nodes)) |-> Nm[SetToSeq(G.nodes)[i]]],
      uedges |-> [i \in 1..Len(SetToSeq(G.edges)) |-> <<Nm[SetToSeq(G.edges)[i][1]], Nm[SetToSeq(G.edges)[i][2]]>>],
      edges |-> [i \in 1..Len(es) |-> <<nm(es[i][1]), nm(es[i][2])>>],
      mults |-> SetToSeq(Spread(vecs, Cap))]

ASSUME ndJsonSerialize(IOEnv.OUT_FILE, SetToSeq({Inst(E) : E \in Shapes}))

VARIABLE x
Init == x = 0
Next == FALSE /\ x' = x
Spec == Init /\ [][Next]_x
=============================================================================
