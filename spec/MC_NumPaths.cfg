SPECIFICATION NSpec
CONSTANT MaxObj = 2
CONSTANT Params <- Accepted
INVARIANT ReturnedIsProven
INVARIANT SkippedNeverReturned
INVARIANT InOrder
INVARIANT SolvedByCriterion
INVARIANT FirstReturnsSmallestProven
INVARIANT OutcomeMeaning
INVARIANT NoReturnUnlessSolved
PROPERTY Terminates
CHECK_DEADLOCK FALSE
