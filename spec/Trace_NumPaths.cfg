SPECIFICATION TSpec
CONSTANT MaxObj = 0
CONSTANT Params = {}
CONSTRAINT Verdict
INVARIANT ReturnedIsProven
INVARIANT SkippedNeverReturned
CHECK_DEADLOCK FALSE
