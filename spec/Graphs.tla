------------------------------- MODULE Graphs -------------------------------
(***************************************************************************)
(* Pure graph vocabulary shared by every other module.                     *)
(*                                                                         *)
(* A graph is a record [nodes |-> set of STRING, edges |-> set of pairs].  *)
(* Nothing in here knows about networkx, HiGHS or flowpaths: these are the *)
(* mathematical notions the properties are stated in.  The operators       *)
(* Augment / Expand / CondExp say what the library's substrate classes     *)
(* (AbstractSourceSinkGraph, NodeExpandedDiGraph, stDiGraph) are meant to  *)
(* build; the library is checked against them, never the other way round.  *)
(***************************************************************************)
EXTENDS Naturals, Integers, Sequences, FiniteSets, SequencesExt, FiniteSetsExt

SRC == "S*"          \* canonical name of the synthetic global source
SNK == "T*"          \* canonical name of the synthetic global sink

MkGraph(N, E) == [nodes |-> N, edges |-> E]

Out(G, v) == {e \in G.edges : e[1] = v}
In(G, v)  == {e \in G.edges : e[2] = v}
Succ(G, v) == {e[2] : e \in Out(G, v)}
Pred(G, v) == {e[1] : e \in In(G, v)}
Sources(G) == {v \in G.nodes : In(G, v) = {}}
Sinks(G)   == {v \in G.nodes : Out(G, v) = {}}

(* Least fixpoint: nodes reachable from the set R0 (R0 included). *)
ReachSet(G, R0) ==
  LET RECURSIVE L(_)
      L(R) == LET F == UNION {Succ(G, x) : x \in R} \ R
              IN IF F = {} THEN R ELSE L(R \cup F)
  IN L(R0)
ReachFrom(G, v) == ReachSet(G, {v})

CoReachSet(G, R0) ==
  LET RECURSIVE L(_)
      L(R) == LET F == UNION {Pred(G, x) : x \in R} \ R
              IN IF F = {} THEN R ELSE L(R \cup F)
  IN L(R0)
Reaching(G, v) == CoReachSet(G, {v})

(* v reachable from u by a walk with at least one edge *)
ReachPlus(G, u) == ReachSet(G, Succ(G, u)) 

SameSCC(G, u, v) == v \in ReachFrom(G, u) /\ u \in ReachFrom(G, v)
SCCOf(G, v) == {u \in G.nodes : SameSCC(G, u, v)}
IsSCCEdge(G, e) == e[1] \in ReachFrom(G, e[2])   \* e \in G.edges assumed
IsDAG(G) == \A e \in G.edges : e[1] \notin ReachFrom(G, e[2])

(***************************************************************************)
(* What AbstractSourceSinkGraph is supposed to build.                      *)
(***************************************************************************)
Augment(G, starts, ends) ==
  [nodes |-> G.nodes \cup {SRC, SNK},
   edges |-> G.edges \cup {<<SRC, v>> : v \in Sources(G) \cup starts}
                     \cup {<<v, SNK>> : v \in Sinks(G) \cup ends}]

SourceSinkEdges(A) == {e \in A.edges : e[1] = SRC \/ e[2] = SNK}

(***************************************************************************)
(* What NodeExpandedDiGraph is supposed to build.                          *)
(***************************************************************************)
Dot0(v) == v \o ".0"
Dot1(v) == v \o ".1"
Expand(G) ==
  [nodes |-> {Dot0(v) : v \in G.nodes} \cup {Dot1(v) : v \in G.nodes},
   edges |-> {<<Dot0(v), Dot1(v)>> : v \in G.nodes}
             \cup {<<Dot1(e[1]), Dot0(e[2])>> : e \in G.edges}]
ExpandedNodeEdge(v) == <<Dot0(v), Dot1(v)>>
ExpandedLinkEdge(e) == <<Dot1(e[1]), Dot0(e[2])>>
ExpandedLinkEdges(G) == {ExpandedLinkEdge(e) : e \in G.edges}

(***************************************************************************)
(* Topological helpers for DAGs.                                           *)
(***************************************************************************)
RECURSIVE TopoOrder(_)
TopoOrder(G) ==
  IF G.nodes = {} THEN <<>>
  ELSE LET v == CHOOSE x \in G.nodes : In(G, x) = {}
           H == [nodes |-> G.nodes \ {v},
                 edges |-> {e \in G.edges : e[1] # v /\ e[2] # v}]
       IN <<v>> \o TopoOrder(H)

(***************************************************************************)
(* All simple S-T routes of a DAG (sequences of nodes) -- finite.          *)
(***************************************************************************)
RECURSIVE PathsFrom(_, _, _)
PathsFrom(G, v, T) ==
  (IF v \in T THEN {<<v>>} ELSE {})
  \cup UNION {{<<v>> \o p : p \in PathsFrom(G, w, T)} : w \in Succ(G, v)}

(* all walks from v ending in T with at most n edges *)
RECURSIVE WalksFrom(_, _, _, _)
WalksFrom(G, v, T, n) ==
  (IF v \in T THEN {<<v>>} ELSE {})
  \cup (IF n = 0 THEN {}
        ELSE UNION {{<<v>> \o p : p \in WalksFrom(G, w, T, n - 1)} : w \in Succ(G, v)})

EdgesOfSeq(p) == {<<p[i], p[i+1]>> : i \in 1..(Len(p) - 1)}
=============================================================================
