------------------------------ MODULE Problems ------------------------------
(***************************************************************************)
(* One validity predicate per problem the library solves, stated over      *)
(* plain mathematical data (graph, weight function, routes, weights).      *)
(* All numbers are integers in a common fixed-point unit chosen by the     *)
(* caller; "tol" is the caller's tolerance PER TERM (0 for integer runs).  *)
(***************************************************************************)
EXTENDS Routes, TLC

Abs(x) == IF x < 0 THEN -x ELSE x
Max2(a, b) == IF a > b THEN a ELSE b
Min2(a, b) == IF a < b THEN a ELSE b
RECURSIVE SumSeq(_)
SumSeq(s) == IF s = <<>> THEN 0 ELSE Head(s) + SumSeq(Tail(s))
SumOver(S, F(_)) == LET RECURSIVE Go(_)
                        Go(T) == IF T = {} THEN 0
                                 ELSE LET x == CHOOSE y \in T : TRUE IN F(x) + Go(T \ {x})
                    IN Go(S)

(***************************************************************************)
(* elements_to_ignore_percentile (kMinPathErrorCycles): the elements whose *)
(* value lies strictly below the p-th percentile of all values present     *)
(* (linear interpolation between the order statistics, p in 0..100) are    *)
(* ignored.  Decided in integers: with (n-1)*p = 100*q + fr, the           *)
(* percentile is s[q+1] + fr/100 * (s[q+2] - s[q+1]).  r.ignpct < 0: off.  *)
(***************************************************************************)
BelowPercentile(v, vals, p) ==
  LET s == SortSeq(vals, <)
      n == Len(s)
      rank == (n - 1) * p
      q == rank \div 100
      fr == rank % 100
  IN n > 0 /\ 100 * v < 100 * s[q + 1] + (IF fr = 0 THEN 0 ELSE fr * (s[q + 2] - s[q + 1]))
PctIgnored(r) ==
  IF "ignpct" \notin DOMAIN r \/ r.ignpct < 0 THEN {}
  ELSE LET ABSENT == -999999
           vs == IF r.mode = "node" THEN r.nw ELSE r.ew
           xs == IF r.mode = "node" THEN r.nodes ELSE r.edges
           present == {i \in 1..Len(xs) : vs[i] # ABSENT}
           vals == SetToSeq({<<i, vs[i]>> : i \in present})          \* (index kept so that equal values stay separate)
       IN {xs[i] : i \in {j \in present : BelowPercentile(vs[j], [m \in 1..Len(vals) |-> vals[m][2]], r.ignpct)}}

(***************************************************************************)
(* Length coverage (subpath_constraints_coverage_length, DAG models): an   *)
(* edge without the length attribute counts 1; a constraint is honoured by *)
(* a route when the listed positions lying on the route carry at least the *)
(* fraction n/d of the total listed length (positions counted with         *)
(* multiplicity, as in the library's encoding 7a).                         *)
(***************************************************************************)
EdgeLenOr(r, e, dflt) ==     \* the length attribute of user edge e, dflt when absent
  IF "elen" \notin DOMAIN r \/ r.elen = <<>> THEN dflt
  ELSE LET I == {i \in 1..Len(r.edges) : r.edges[i][1] = e[1] /\ r.edges[i][2] = e[2]} IN
       IF I = {} THEN dflt
       ELSE LET i == CHOOSE x \in I : TRUE IN IF r.elen[i] = -999999 THEN dflt ELSE r.elen[i]
NodeLenOr(r, v, dflt) ==
  IF "nlen" \notin DOMAIN r \/ r.nlen = <<>> THEN dflt
  ELSE LET I == {i \in 1..Len(r.nodes) : r.nodes[i] = v} IN
       IF I = {} THEN dflt
       ELSE LET i == CHOOSE x \in I : TRUE IN IF r.nlen[i] = -999999 THEN dflt ELSE r.nlen[i]
(* Node mode (flow models): lengths live on the nodes (absent = 1); in the   *)
(* expansion the node edge of v carries v's length and a link edge carries   *)
(* the user edge's own length attribute if it has one, else 0.               *)
ELen(r, x) ==        \* x: an edge of the graph the model works on (EG: user edge, or expanded edge in node mode)
  IF "mode" \in DOMAIN r /\ r.mode = "node"
  THEN LET V == {v \in ToSet(r.nodes) : ExpandedNodeEdge(v) = x}
           L == {e \in ToSet(r.edges) : ExpandedLinkEdge(e) = x} IN
       IF V # {} THEN NodeLenOr(r, CHOOSE v \in V : TRUE, 1)
       ELSE IF L # {} THEN EdgeLenOr(r, CHOOSE e \in L : TRUE, 0) ELSE 1
  ELSE EdgeLenOr(r, x, 1)
LenSum(r, c, J) == SumOver(J, LAMBDA j : ELen(r, c[j]))
UsesLengthCoverage(r) == "covlen" \in DOMAIN r /\ r.covlen[1] > 0
HonouredByLength(r, c, J) == LenSum(r, c, J) * r.covlen[2] >= LenSum(r, c, 1..Len(c)) * r.covlen[1]

(* the same at user level (trace clauses): a constraint as a sequence of items <<"n", v>> / <<"e", <<u, v>>>> *)
XCons(r, c) ==
  IF r.mode # "node" THEN [i \in 1..Len(c) |-> <<"e", c[i]>>]
  ELSE IF r.cons_kind = "node" THEN [i \in 1..Len(c) |-> <<"n", c[i]>>]
  ELSE LET RECURSIVE X(_)
           X(i) == IF i > Len(c) THEN <<>>
                   ELSE <<<<"n", c[i][1]>>, <<"e", c[i]>>>> \o (IF i = Len(c) THEN <<<<"n", c[i][2]>>>> ELSE <<>>) \o X(i + 1)
       IN X(1)
XLen(r, it) == IF it[1] = "n" THEN NodeLenOr(r, it[2], 1)
               ELSE IF r.mode = "node" THEN EdgeLenOr(r, it[2], 0) ELSE EdgeLenOr(r, it[2], 1)
XOn(it, p) == IF it[1] = "n" THEN Visits(it[2], p) >= 1 ELSE Count(it[2], p) >= 1
RouteHonoursByLength(r, c, p) ==
  LET xc == XCons(r, c)
      tot == SumOver(1..Len(xc), LAMBDA j : XLen(r, xc[j]))
      got == SumOver({j \in 1..Len(xc) : XOn(xc[j], p)}, LAMBDA j : XLen(r, xc[j]))
  IN got * r.covlen[2] >= tot * r.covlen[1]

(* Sum over routes of weight * number of traversals of edge e *)
Explained(e, routes, weights) ==
  SumSeq([i \in 1..Len(routes) |-> weights[i] * Count(e, routes[i])])
ExplainedNode(v, routes, weights) ==
  SumSeq([i \in 1..Len(routes) |-> weights[i] * Visits(v, routes[i])])
Traversals(e, routes) == SumSeq([i \in 1..Len(routes) |-> Count(e, routes[i])])
NodeTraversals(v, routes) == SumSeq([i \in 1..Len(routes) |-> Visits(v, routes[i])])

(***************************************************************************)
(* C02: exact flow decomposition of the non-ignored elements.              *)
(* f: function element -> value; Elems: the elements that must be          *)
(* explained (edges, or nodes in node mode).                               *)
(***************************************************************************)
FDExactEdges(Elems, f, routes, weights, tol) ==
  \A e \in Elems : Abs(Explained(e, routes, weights) - f[e]) <= tol * Max2(1, Traversals(e, routes))
FDExactNodes(Elems, f, routes, weights, tol) ==
  \A v \in Elems : Abs(ExplainedNode(v, routes, weights) - f[v]) <= tol * Max2(1, NodeTraversals(v, routes))

(***************************************************************************)
(* C09: covers.                                                            *)
(***************************************************************************)
CoversEdges(Elems, routes) == \A e \in Elems : Traversals(e, routes) >= 1
CoversNodes(Elems, routes) == \A v \in Elems : NodeTraversals(v, routes) >= 1

(***************************************************************************)
(* C07: least absolute errors.  err(e) = |f(e) - explained(e)|;            *)
(* objective = sum of sc(e) * err(e) with sc = scn[e]/scd[e].              *)
(***************************************************************************)
AbsErr(e, f, routes, weights) == Abs(f[e] - Explained(e, routes, weights))
AbsErrNode(v, f, routes, weights) == Abs(f[v] - ExplainedNode(v, routes, weights))

(***************************************************************************)
(* C08: minimum path error.  For every non-ignored element:                *)
(*   |f - explained| * scale <= sum of slacks of routes through it         *)
(* (a route contributes its slack once per traversal, as gamma = x*slack). *)
(***************************************************************************)
SlackThrough(e, routes, slacks) ==
  SumSeq([i \in 1..Len(routes) |-> slacks[i] * Count(e, routes[i])])
SlackThroughNode(v, routes, slacks) ==
  SumSeq([i \in 1..Len(routes) |-> slacks[i] * Visits(v, routes[i])])
=============================================================================
