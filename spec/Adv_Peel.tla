------------------------------ MODULE Adv_Peel ------------------------------
(***************************************************************************)
(* The decomposition adversary ("Peel").                                   *)
(*                                                                         *)
(* Every integer-weighted decomposition of an instance into source-to-sink *)
(* routes is a behaviour of this machine: Start(w) opens a route of weight *)
(* w at the synthetic source, Step(e) extends it along edge e of the       *)
(* augmented graph, subtracting w from the residual of e unless e is       *)
(* ignored; arriving at the synthetic sink closes the route and credits    *)
(* the constraints it honours.  On DAG instances routes are paths          *)
(* automatically; on cyclic instances Step may revisit nodes and edges     *)
(* (walks).                                                                *)
(*                                                                         *)
(* Used for trace validation of minimality (C03, C04, C10, C11): each      *)
(* record carries the bound  r.bound = (number of routes the library       *)
(* returned) - 1,  or |E| when the library reported "unsolved".  A         *)
(* reachable Goal state is a concrete better decomposition; it is          *)
(* reported as <<"WITNESS", id, cnt>> through the state constraint, so one *)
(* TLC run decides all records of a shard.                                 *)
(*                                                                         *)
(* Design-level properties of the machine itself (MC_Peel.cfg):            *)
(*   ResNonNeg       residuals never go negative                           *)
(*   Conservation    explained + residual = value, as an action property   *)
(***************************************************************************)
EXTENDS Optimum, Json, IOUtils, TLC

Recs == ndJsonDeserialize(IOEnv.TRACE_FILE)

VARIABLES tid,      \* which record
          res,      \* residual value per required edge
          cur,      \* current node of the open route, or "-" when idle
          w,        \* weight of the open route
          lastw,    \* weight of the previously opened route (routes are opened in non-increasing weight order)
          cnt,      \* routes opened so far
          hit,      \* EG edges used by the open route (only those occurring in some constraint)
          sat       \* indices of constraints already honoured
vars == <<tid, res, cur, w, lastw, cnt, hit, sat>>

R == Recs[tid]
IDLE == "-"
ConsEdges(r) == UNION {ToSet(ECons(r)[j]) : j \in 1..Len(r.cons)}

Init ==
  /\ tid \in DOMAIN Recs
  /\ res = Val(Recs[tid])
  /\ cur = IDLE /\ w = 0 /\ cnt = 0 /\ hit = {} /\ sat = {}
  /\ lastw = MaxVal(Recs[tid])

Start(x) ==
  /\ cur = IDLE
  /\ cnt < R.bound
  /\ x \in 0..lastw
  /\ cur' = SRC /\ w' = x /\ lastw' = x /\ cnt' = cnt + 1 /\ hit' = {}
  /\ UNCHANGED <<tid, res, sat>>

Step(e) ==
  /\ cur # IDLE
  /\ e \in Out(AG(R), cur)
  /\ (e \in Req(R) => res[e] >= w)
  /\ res' = IF e \in Req(R) THEN [res EXCEPT ![e] = @ - w] ELSE res
  /\ LET h == IF e \in ConsEdges(R) THEN hit \cup {e} ELSE hit IN
     IF e[2] = SNK
     THEN /\ cur' = IDLE /\ hit' = {}
          /\ sat' = sat \cup {j \in 1..Len(R.cons) : HonouredBy(R, ECons(R)[j], h)}
     ELSE /\ cur' = e[2] /\ hit' = h /\ sat' = sat
  /\ UNCHANGED <<tid, w, lastw, cnt>>

Next == (\E x \in 0..lastw : Start(x)) \/ (\E e \in AG(R).edges : Step(e))
Spec == Init /\ [][Next]_vars

Goal == cur = IDLE /\ (\A e \in Req(R) : res[e] = 0) /\ sat = 1..Len(R.cons)

(* state constraint: report goals, stop exploring behind them and behind hopeless states *)
Explore ==
  IF Goal THEN PrintT(<<"WITNESS", R.id, cnt>>) /\ FALSE
  ELSE ~(cur = IDLE /\ cnt = R.bound)

(* design-level invariants *)
ResNonNeg == \A e \in Req(R) : res[e] >= 0
(* a step changes at most one residual, by exactly the weight of the open route *)
Conservation ==
  [][\A e \in Req(R) : res'[e] = res[e] \/ (res'[e] = res[e] - w /\ cur = e[1])]_vars
=============================================================================
