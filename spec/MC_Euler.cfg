SPECIFICATION Spec
INVARIANT DoneOK
INVARIANT NeverOveruse
PROPERTY Terminates
CHECK_DEADLOCK FALSE
