SPECIFICATION KSpec
CONSTANT D = 6
INVARIANT DeliveredIsLastRun
PROPERTY NeverStale
CHECK_DEADLOCK FALSE
