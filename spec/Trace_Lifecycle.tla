--------------------------- MODULE Trace_Lifecycle ---------------------------
(***************************************************************************)
(* C13 trace validation.  One record = one execution of a minimum search   *)
(* (or k-model) under an injected fault schedule:                          *)
(*   events   the solver invocations the library made, in order, each      *)
(*            [owner, status as the library saw it]                        *)
(*   kstar    number of main-loop invocations of the fault-free run of     *)
(*            the same input, count_ref its result size                    *)
(*   outcome  solve() return, is_solved(), whether getters returned data   *)
(* The trace spec replays the events through Lifecycle's actions           *)
(* (IsEvent /\ SolveK / Nested); an event no action explains moves to      *)
(* phase "Rejected".  After the last event the observed outcome must be    *)
(* the one the specification reached.                                      *)
(***************************************************************************)
EXTENDS Lifecycle, Json, IOUtils, TLC

Recs == ndJsonDeserialize(IOEnv.TRACE_FILE)
VARIABLES tid, l, why
tvars == <<phase, n, hist, kstar, nestedFault, tid, l, why>>
R == Recs[tid]

Class(st) == IF st = "kOptimal" THEN "Optimal" ELSE IF st = "kInfeasible" THEN "Infeasible"
             ELSE IF st = "kTimeLimit" THEN "TimeLimit" ELSE IF st = "kInterrupt" THEN "Interrupt" ELSE "Unknown"
IsMain(r, ev) == ev[1] = "main" \/ (r.cls = "MinGenSet" /\ ev[1] = "mingenset")

TInit == /\ tid \in DOMAIN Recs
         /\ kstar = Recs[tid].kstar /\ phase = "Searching" /\ n = 1 /\ hist = <<>> /\ nestedFault = FALSE
         /\ l = 1 /\ why = "-"

IsEvent == l <= Len(R.events)
Ev == R.events[l]

TraceSolveK == /\ IsEvent /\ Ev[1] # "retry" /\ IsMain(R, Ev) /\ SolveK(Class(Ev[2])) /\ l' = l + 1 /\ UNCHANGED <<tid, why>>
(* Lifecycle!Nested, also accepted (as a no-op on the phase) after the search has ended *)
TraceNested == /\ IsEvent /\ Ev[1] # "retry" /\ ~IsMain(R, Ev)
               /\ nestedFault' = (nestedFault \/ Class(Ev[2]) \in Inconclusive)
               /\ l' = l + 1 /\ UNCHANGED <<phase, n, hist, kstar, tid, why>>
(* the library kept invoking the solver after it had to give up: tolerated as long as the outcome stays Unsolved *)
TraceAfterGiveUp == /\ IsEvent /\ Ev[1] # "retry" /\ IsMain(R, Ev) /\ phase = "Unsolved"
                    /\ l' = l + 1 /\ why' = "continued-after-inconclusive"
                    /\ UNCHANGED <<phase, n, hist, kstar, nestedFault, tid>>
(* no action of the specification explains the event *)
TraceUnexplained ==
  /\ IsEvent /\ Ev[1] # "retry" /\ IsMain(R, Ev) /\ phase \in {"Searching", "Solved", "Rejected"}
  /\ ~(phase = "Searching" /\ Class(Ev[2]) \in {Truth(n)} \cup Inconclusive)
  /\ phase' = "Rejected" /\ l' = l + 1
  /\ why' = (IF phase = "Solved" THEN "invocation-after-solved"
             ELSE IF Class(Ev[2]) = "Optimal" THEN "optimal-below-kstar" ELSE "infeasible-at-kstar")
  /\ UNCHANGED <<n, hist, kstar, nestedFault, tid>>

(* the caller called solve() again (event ["retry", "-"], logged by the harness between the two calls) *)
IsRetry == IsEvent /\ Ev[1] = "retry"
TraceRetry == /\ IsRetry /\ Retry /\ l' = l + 1 /\ UNCHANGED <<tid, why>>
(* solve() again on an object whose first search ended otherwise (solved, or finished by the guessed-weights shortcut,
   which the specification does not model as a phase change): the search simply starts over *)
TraceRetryNotUnsolved == /\ IsRetry /\ phase \notin {"Unsolved", "Rejected"} /\ l' = l + 1
                         /\ phase' = "Searching" /\ n' = 1 /\ hist' = <<>>
                         /\ UNCHANGED <<kstar, nestedFault, tid, why>>
TraceRetryRejected == /\ IsRetry /\ phase = "Rejected" /\ l' = l + 1 /\ UNCHANGED <<phase, n, hist, kstar, nestedFault, tid, why>>
TNext == TraceSolveK \/ TraceNested \/ TraceAfterGiveUp \/ TraceUnexplained \/ TraceRetry \/ TraceRetryNotUnsolved \/ TraceRetryRejected
TSpec == TInit /\ [][TNext]_tvars

(***************************************************************************)
(* Acceptance: evaluated when every event has been consumed.               *)
(***************************************************************************)
ObsSolved == R.solved = TRUE
GotData == R.got_solution = TRUE /\ R.sol_exc = "none"
AnyMainInc == \E i \in 1..Len(hist) : hist[i] \in Inconclusive
IsMinSearch == R.cls \in {"MinFlowDecomp", "MinFlowDecompCycles", "MinPathCover", "MinPathCoverCycles", "MinGenSet"}

(* the documented shortcut of the guessed-weights option: the solution of the helper model with given weights is used
   when its size equals the candidate being tested (no solver run of the main loop for that candidate) *)
GivenShortcut == /\ phase = "Searching" /\ \A i \in 1..Len(hist) : hist[i] = "Infeasible"
                 /\ \E i \in 1..Len(R.events) : R.events[i][1] = "given" /\ Class(R.events[i][2]) = "Optimal"

IsKModel == R.cls \in {"kFlowDecomp", "kMinPathError", "kLeastAbsErrors", "kPathCover", "kFlowDecompCycles",
                        "kMinPathErrorCycles", "kLeastAbsErrorsCycles", "kPathCoverCycles", "MinSetCover", "MinErrorFlow"}
(* a k-model runs its solver once (MinErrorFlow with a few-values epsilon: twice, the second run refining the answer of the
   first); the library saw an inconclusive status in one of these runs *)
AnyInc == \E i \in 1..Len(R.events) : Class(R.events[i][2]) \in Inconclusive

(* The library's own (custom, SIGALRM) time limit: R.overruns lists the events whose backend run the harness made last longer
   than the whole-second ceiling of the budget, with use_also_custom_timeout switched on.  Nothing was injected into the
   statuses of these runs: the library must itself have seen them end with the time limit. *)
Overruns == IF "overruns" \in DOMAIN R THEN R.overruns ELSE <<>>
Clauses == {"NoProcessExit", "InconclusiveNeverSolved", "NoDataWhenUnsolved", "SolvedOnlyWhenSpecSolved", "CustomTimeoutFires",
            "FaultFreeSolvesWithOptimum", "NeverNonMinimal", "EventsExplained", "ReturnsFalseWhenUnsolved",
            "PreSolveGettersRaise", "ReturnedModelProvenOptimal"}

Applicable(c) ==
  CASE c = "FaultFreeSolvesWithOptimum" -> IsMinSearch /\ ~AnyMainInc /\ ~nestedFault /\ phase # "Rejected"
    [] c = "NeverNonMinimal" -> IsMinSearch /\ ObsSolved
    [] c = "PreSolveGettersRaise" -> R.checked_pre = TRUE
    [] c = "SolvedOnlyWhenSpecSolved" -> IsMinSearch
    [] c = "InconclusiveNeverSolved" -> IsMinSearch \/ IsKModel
    [] c = "ReturnedModelProvenOptimal" -> R.cls = "NumPathsOptimization" /\ ObsSolved
    [] c = "EventsExplained" -> IsMinSearch
    [] c = "CustomTimeoutFires" -> Len(Overruns) > 0
    [] OTHER -> TRUE

Holds(c) ==
  CASE c = "NoProcessExit" -> R.process_exit = FALSE /\ R.solve_exc = "none"
    [] c = "InconclusiveNeverSolved" -> (IF IsKModel THEN AnyInc ELSE AnyMainInc) => (~ObsSolved /\ R.solve_ret # 1)
    [] c = "NoDataWhenUnsolved" -> ~ObsSolved => (~GotData /\ R.obj_exc # "none")
    [] c = "SolvedOnlyWhenSpecSolved" -> ObsSolved => (phase = "Solved" \/ GivenShortcut)
    [] c = "FaultFreeSolvesWithOptimum" -> ObsSolved /\ R.solve_ret = 1 /\ GotData /\ R.count = R.count_ref
    [] c = "NeverNonMinimal" -> R.count = R.count_ref
    [] c = "EventsExplained" -> phase # "Rejected"
    [] c = "ReturnsFalseWhenUnsolved" -> ~ObsSolved => R.solve_ret # 1
    [] c = "PreSolveGettersRaise" -> R.pre_sol_exc # "none" /\ R.pre_obj_exc # "none"
    [] c = "CustomTimeoutFires" ->
          /\ \A i \in 1..Len(Overruns) : Overruns[i] \in 1..Len(R.events) /\ Class(R.events[Overruns[i]][2]) \in Inconclusive
          /\ ~ObsSolved /\ ~GotData
    [] c = "ReturnedModelProvenOptimal" ->
          \* the last main invocation is the returned model's own run: it must have been seen as Optimal
          \E i \in 1..Len(R.events) : /\ IsMain(R, R.events[i]) /\ Class(R.events[i][2]) = "Optimal"
                                      /\ \A j \in (i + 1)..Len(R.events) : ~IsMain(R, R.events[j])

App == {c \in Clauses : Applicable(c)}
Fails == {c \in App : ~Holds(c)}
Verdict == (l > Len(R.events)) => PrintT(<<"VERDICT", R.id, App, Fails, phase, why>>)
=============================================================================
