------------------------------ MODULE NumPaths ------------------------------
(***************************************************************************)
(* The generic number-of-paths optimiser (NumPathsOptimization.solve):     *)
(* candidates k = Lo, Lo+1, ..., Hi are tried in turn (Lo is the larger of *)
(* min_num_paths and the model's own lower bound).  Each candidate is one  *)
(* run of the wrapped k-model; a run that is not proven optimal - be it    *)
(* infeasible or inconclusive - is skipped.  After a proven run the stop   *)
(* criteria are consulted in the order of the code:                        *)
(*                                                                         *)
(*   first      stop_on_first_feasible                                     *)
(*   abs        |ref - obj| <= DAbs                                        *)
(*   rel        |ref - obj| / ref <= DRelNum / DRelDen                     *)
(*                                                                         *)
(* C13: "the generic number-of-paths optimiser only ever returns a model   *)
(* that was itself proven optimal for its k" is ReturnedIsProven below.    *)
(*                                                                         *)
(* The specification follows the CODE where it departs from its            *)
(* documentation; each departure is a named piece so that it can be seen   *)
(* and counted (operators Doc* give the documented reading):               *)
(*   RefIsFirstFeasible  the objective the delta criteria compare with is  *)
(*       that of the FIRST proven run, never updated (documentation:       *)
(*       "between iterations", i.e. the previous proven run)               *)
(*   ZeroIsOff  a threshold of 0 counts as a criterion for the constructor *)
(*       but is never consulted (Python truthiness)                        *)
(*   BothDeltasStopAtOnce  with abs and rel both on, the first proven run  *)
(*       sets the reference in the abs clause and is then compared with    *)
(*       itself in the rel clause: the search stops at the first proven    *)
(*       run (or crashes, next item)                                       *)
(*   RelOnZeroCrashes  a reference objective of 0 makes the rel clause     *)
(*       divide by zero: solve() raises                                    *)
(*   time limit: checked after every run that did not stop the search;     *)
(*       Budget = "zero" stands for a limit every elapsed time exceeds,    *)
(*       "none" for no limit (nothing in between is deterministic)         *)
(***************************************************************************)
EXTENDS Integers, Sequences, FiniteSets, TLC

CONSTANTS MaxObj,              \* objectives range over 0..MaxObj (model checking only)
          Params               \* the parameter records the model checker starts from (model checking / generation only)

Inconclusive == {"TimeLimit", "CustomTimeout", "Interrupt", "Unknown"}
Statuses == {"Optimal", "Infeasible"} \cup Inconclusive
NoRef == -1

VARIABLES par,       \* the parameters of this optimiser object, fixed at construction:
                     \*   lo, hi   first / last candidate
                     \*   first    BOOLEAN stop_on_first_feasible
                     \*   dabs     threshold in objective units, -1 = not given
                     \*   rnum, rden   relative threshold as a fraction, rden = 0 = not given
                     \*   budget   "none" | "zero"
          phase,     \* "Searching" | "Solved" | "Timeout" | "Unbounded" | "Infeasible" | "Crashed"
          k,         \* next candidate
          ref,       \* objective the delta criteria compare with (NoRef: none yet)
          found,     \* some run was proven optimal
          ret,       \* candidate whose model is returned (0: none)
          hist       \* <<k, status, obj>> of every run so far
nvars == <<par, phase, k, ref, found, ret, hist>>

Lo == par.lo
Hi == par.hi
First == par.first
DAbs == par.dabs
DRelNum == par.rnum
DRelDen == par.rden
Budget == par.budget

Abs(x) == IF x < 0 THEN -x ELSE x
AbsOn == DAbs > 0                          \* ZeroIsOff
RelOn == DRelDen > 0 /\ DRelNum > 0        \* ZeroIsOff
Given == First \/ DAbs >= 0 \/ DRelDen > 0 \* what the constructor accepts as "a criterion was given"

NInit == par \in Params /\ phase = "Searching" /\ k = Lo /\ ref = NoRef /\ found = FALSE /\ ret = 0 /\ hist = <<>>

(* the reference after the abs clause of a proven run with objective obj *)
RefAfterAbs(obj) == IF AbsOn /\ ref = NoRef THEN obj ELSE ref
StopAbs(obj) == AbsOn /\ ref # NoRef /\ Abs(ref - obj) <= DAbs
(* the rel clause sees the reference the abs clause may just have set: BothDeltasStopAtOnce *)
RelCrashes(obj) == RelOn /\ RefAfterAbs(obj) = 0
StopRel(obj) == RelOn /\ RefAfterAbs(obj) > 0 /\ Abs(RefAfterAbs(obj) - obj) * DRelDen <= DRelNum * RefAfterAbs(obj)
RefAfterRel(obj) == IF RelOn /\ RefAfterAbs(obj) = NoRef THEN obj ELSE RefAfterAbs(obj)

(* one run of the wrapped model for candidate k, seen by the optimiser with status st and (if proven) objective obj *)
Run(st, obj) ==
  /\ phase = "Searching" /\ k <= Hi
  /\ hist' = Append(hist, <<k, st, obj>>)
  /\ IF st = "Optimal"
     THEN /\ found' = TRUE
          /\ IF First THEN phase' = "Solved" /\ ret' = k /\ ref' = ref
             ELSE IF StopAbs(obj) THEN phase' = "Solved" /\ ret' = k /\ ref' = ref
             ELSE IF RelCrashes(obj) THEN phase' = "Crashed" /\ ret' = 0 /\ ref' = RefAfterAbs(obj)      \* RelOnZeroCrashes
             ELSE IF StopRel(obj) THEN phase' = "Solved" /\ ret' = k /\ ref' = RefAfterAbs(obj)
             ELSE /\ ref' = RefAfterRel(obj) /\ ret' = ret
                  /\ phase' = IF Budget = "zero" THEN "Timeout" ELSE "Searching"
     ELSE /\ UNCHANGED <<found, ref, ret>>
          /\ phase' = IF Budget = "zero" THEN "Timeout" ELSE "Searching"
  /\ k' = k + 1 /\ UNCHANGED par

(* the candidates are exhausted *)
Exhaust == /\ phase = "Searching" /\ k > Hi
           /\ phase' = (IF found THEN "Unbounded" ELSE "Infeasible")
           /\ UNCHANGED <<par, k, ref, found, ret, hist>>

NNext == (\E st \in Statuses, obj \in 0..MaxObj : Run(st, IF st = "Optimal" THEN obj ELSE 0)) \/ Exhaust
NSpec == NInit /\ [][NNext]_nvars /\ WF_nvars(NNext)

-----------------------------------------------------------------------------
Terminal == phase # "Searching"
Last == hist[Len(hist)]

(* C13: what is returned is the model of a run that was itself proven optimal - and it is the LAST run made *)
ReturnedIsProven == phase = "Solved" => /\ Len(hist) > 0 /\ Last[1] = ret /\ Last[2] = "Optimal"
(* a skipped candidate (infeasible or inconclusive) is never the one returned *)
SkippedNeverReturned == \A i \in 1..Len(hist) : hist[i][2] # "Optimal" => hist[i][1] # ret
(* candidates are tried in order, one run each *)
InOrder == \A i \in 1..Len(hist) : hist[i][1] = Lo + i - 1
(* the search is solved only because a criterion that is on says so *)
SolvedByCriterion == phase = "Solved" => (First \/ AbsOn \/ RelOn)
(* first-feasible: the returned candidate is the smallest proven one *)
FirstReturnsSmallestProven ==
  (First /\ phase = "Solved") => \A i \in 1..Len(hist) : hist[i][2] = "Optimal" => hist[i][1] >= ret
(* the four outcomes of the documentation, plus the crash *)
OutcomeMeaning ==
  /\ phase = "Infeasible" => (~found /\ k > Hi)
  /\ phase = "Unbounded" => (found /\ k > Hi)
  /\ phase = "Timeout" => Budget = "zero"
  /\ phase = "Crashed" => RelOn
(* nothing is returned unless solved *)
NoReturnUnlessSolved == phase # "Solved" => ret = 0
(* without a limit and without the crash the search ends: liveness under the fairness of NSpec *)
Terminates == <>Terminal

-----------------------------------------------------------------------------
(* The documented reading of the delta criteria (reference = previous proven run), as a function of a whole history:   *)
(* the position at which the documented rule would have stopped (0: nowhere).  Used to COUNT the histories on which    *)
(* code and documentation part - not an invariant.                                                                     *)
Proven(h) == SelectSeq(h, LAMBDA e : e[2] = "Optimal")
DocStopsAt(h) ==
  LET p == Proven(h)
      hits == {i \in 2..Len(p) : \/ (DAbs >= 0 /\ Abs(p[i - 1][3] - p[i][3]) <= DAbs)
                                 \/ (DRelDen > 0 /\ p[i - 1][3] > 0 /\ Abs(p[i - 1][3] - p[i][3]) * DRelDen <= DRelNum * p[i - 1][3])}
  IN  IF First /\ Len(p) > 0 THEN p[1][1]
      ELSE IF hits = {} THEN 0 ELSE p[CHOOSE i \in hits : \A j \in hits : i <= j][1]
=============================================================================
