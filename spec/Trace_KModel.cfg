SPECIFICATION TSpec
CONSTANT D = 100
CONSTRAINT Verdict
INVARIANT DeliveredIsLastRun
CHECK_DEADLOCK FALSE
