------------------------------ MODULE Adv_GenSet ------------------------------
(***************************************************************************)
(* The generating-set adversary: every multiset of positive integers is    *)
(* built in non-decreasing order by Add(v).  A record carries the bound    *)
(* (observed size - 1, or the number of input numbers when the library     *)
(* said "unsolved"); a reachable valid generating set within the bound is  *)
(* <<"WITNESS", id, size>>.                                                *)
(***************************************************************************)
EXTENDS GenSet, Json, IOUtils, TLC
Recs == ndJsonDeserialize(IOEnv.TRACE_FILE)
VARIABLES tid, g
R == Recs[tid]
Init == tid \in DOMAIN Recs /\ g = <<>>
Add(v) == /\ Len(g) < R.bound
          /\ v >= (IF g = <<>> THEN 1 ELSE g[Len(g)])
          /\ SumSeq(g) + v <= R.total
          /\ g' = Append(g, v) /\ UNCHANGED tid
Next == \E v \in 1..R.total : Add(v)
Spec == Init /\ [][Next]_<<tid, g>>
Goal == GenSetValid(g, R.numbers, R.total, R.mult, R.pcs)
Explore == IF Goal THEN PrintT(<<"WITNESS", R.id, Len(g)>>) /\ FALSE ELSE TRUE
Sorted == \A i \in 1..(Len(g) - 1) : g[i] <= g[i + 1]
=============================================================================
