---------------------------- MODULE Trace_Purity ----------------------------
(***************************************************************************)
(* C18 trace validation: a recorded history of constructions and solves    *)
(* sharing caller-owned objects (behaviour of Purity.tla).  After every     *)
(* call the harness lists the pooled objects whose canonical dump differs   *)
(* from the initial one (must be none: Purity!PoolUnchanged) and gives the  *)
(* model's result next to the result of the same construction in a fresh,   *)
(* isolated history (must be equal: history independence); repeated         *)
(* getters / solve() must reproduce the result.                             *)
(***************************************************************************)
EXTENDS Integers, Sequences, FiniteSets, Json, IOUtils, TLC
NONE == -999999
Recs == ndJsonDeserialize(IOEnv.TRACE_FILE)
VARIABLES tid, l, bad
R == Recs[tid]
Ev == R.events[l]
Abs(x) == IF x < 0 THEN -x ELSE x
SameResult(a, b) == /\ a.ctor_exc = b.ctor_exc /\ a.solved = b.solved /\ a.count = b.count
                    /\ Abs(a.obj - b.obj) <= 5 /\ a.get_exc = b.get_exc
Init == tid \in DOMAIN Recs /\ l = 1 /\ bad = {}
Step == /\ l <= Len(R.events)
        /\ bad' = bad \cup {<<c, l>> : c \in
             {c \in {"PoolUnchanged", "HistoryIndependent", "RepeatedGettersAgree", "ResolveAgrees"} :
                CASE c = "PoolUnchanged" -> Ev.changed # <<>>
                  [] c = "HistoryIndependent" -> ~SameResult(Ev.res, Ev.ref)
                  [] c = "RepeatedGettersAgree" -> Ev.res.again_same = FALSE
                  [] c = "ResolveAgrees" -> Ev.res.resolve_same = FALSE}}
        /\ l' = l + 1 /\ UNCHANGED tid
Spec == Init /\ [][Step]_<<tid, l, bad>>
Verdict == (l > Len(R.events)) => PrintT(<<"VERDICT", R.id, {"PoolUnchanged", "HistoryIndependent", "RepeatedGettersAgree", "ResolveAgrees"}, bad>>)
=============================================================================
