----------------------------- MODULE Trace_Gadget -----------------------------
(***************************************************************************)
(* C12, gadgets as EMITTED by the real helpers.  The harness calls the     *)
(* helper on a fresh wrapper and exports the rows / column bounds of the   *)
(* backend model, plus min/max probes of the product (or y) under fixings. *)
(*   EmittedExact   on the integer grid: (exists aux : all rows hold)      *)
(*                  <=> the relation the helper names                      *)
(*   ProbesExact    for every admissible fixing the solver's min and max   *)
(*                  of the product both equal x*c (so no other value is    *)
(*                  feasible, and the pair itself is feasible)             *)
(***************************************************************************)
EXTENDS Gadgets, Json, IOUtils, TLC, SequencesExt

UNIT == 10000
INF == 100000000
Recs == ndJsonDeserialize(IOEnv.TRACE_FILE)
VARIABLE tid

Dom(r, j) == LET lo == r.cols[j].lo  hi == r.cols[j].hi IN
             (IF lo <= -INF THEN -1 ELSE -((-lo) \div UNIT))..(IF hi >= INF THEN 20 ELSE hi \div UNIT)
RowVal(row, asg) == LET RECURSIVE S(_)
                        S(i) == IF i = 0 THEN 0 ELSE S(i - 1) + row.coefs[i][2] * asg[row.coefs[i][1]]
                    IN S(Len(row.coefs))
RowsHold(r, asg) == \A i \in 1..Len(r.rows) :
                       LET v == RowVal(r.rows[i], asg) IN
                       /\ (r.rows[i].lo <= -INF \/ v >= r.rows[i].lo)
                       /\ (r.rows[i].hi >= INF \/ v <= r.rows[i].hi)
RECURSIVE Sat(_, _, _)
Sat(r, asg, todo) == IF todo = <<>> THEN RowsHold(r, asg)
                     ELSE \E v \in Dom(r, Head(todo)) : Sat(r, (Head(todo) :> v) @@ asg, Tail(todo))

Named(r) == {r.colnames[k] : k \in DOMAIN r.colnames}
Aux(r) == SetToSeq((1..Len(r.cols)) \ Named(r))
Feasible(r, rel) == Sat(r, rel, Aux(r))     \* rel: function from the named columns

Fix(pr, name) == LET S == {i \in 1..Len(pr.fix) : pr.fix[i][1] = name} IN pr.fix[CHOOSE i \in S : TRUE][2]

EmittedExact(r) ==
  CASE r.gadget = "binary" ->
         \A b \in Dom(r, r.colnames.b), c \in Dom(r, r.colnames.c), p \in Dom(r, r.colnames.p) :
            Feasible(r, (r.colnames.b :> b) @@ (r.colnames.c :> c) @@ (r.colnames.p :> p)) <=> (p = b * c)
    [] r.gadget = "integer" ->
         \A x \in Dom(r, r.colnames.x), c \in Dom(r, r.colnames.c), p \in Dom(r, r.colnames.p) :
            (x * c <= r.ub) =>
              (Feasible(r, (r.colnames.x :> x) @@ (r.colnames.c :> c) @@ (r.colnames.p :> p)) <=> (p = x * c))
    [] r.gadget = "piecewise" ->
         \A x \in Dom(r, r.colnames.x), y \in Dom(r, r.colnames.y) :
            LET In == {i \in 1..Len(r.ranges) : x >= r.ranges[i][1] /\ x <= r.ranges[i][2]} IN
            Feasible(r, (r.colnames.x :> x) @@ (r.colnames.y :> y)) <=> (In # {} /\ \E i \in In : y = r.constants[i])

ProbeOK(r, pr) ==
  CASE r.gadget = "binary" ->
         LET b == Fix(pr, "b")  c == Fix(pr, "c") IN
         /\ pr.smin = "kOptimal" /\ pr.smax = "kOptimal" /\ pr.vmin = b * c * UNIT /\ pr.vmax = b * c * UNIT
    [] r.gadget = "integer" ->
         LET x == Fix(pr, "x")  c == Fix(pr, "c") IN
         \* (ub, cub and c are in 1/den units; den = 1 for the integral instances)
         (x * c <= r.ub /\ x <= r.xub /\ c <= r.cub) =>
            /\ pr.smin = "kOptimal" /\ pr.smax = "kOptimal"
            /\ pr.vmin = (x * c * UNIT) \div r.den /\ pr.vmax = (x * c * UNIT) \div r.den
    [] r.gadget = "piecewise" ->
         LET x == Fix(pr, "x")
             In == {i \in 1..Len(r.ranges) : x >= r.ranges[i][1] /\ x <= r.ranges[i][2]} IN
         IF In = {} THEN pr.smin = "kInfeasible" /\ pr.smax = "kInfeasible"
         ELSE /\ pr.smin = "kOptimal" /\ pr.smax = "kOptimal"
              /\ \E i \in In : pr.vmin = r.constants[i] * UNIT
              /\ \E i \in In : pr.vmax = r.constants[i] * UNIT

Clauses(r) == IF r.exc # "none" THEN {"Builds"} ELSE
              {"Builds", "ProbesExact"} \cup (IF r.enumerate = TRUE THEN {"EmittedExact"} ELSE {})
Holds(c, r) == CASE c = "Builds" -> r.exc = "none"
                 [] c = "ProbesExact" -> \A i \in 1..Len(r.probe_obs) : ProbeOK(r, r.probe_obs[i])
                 [] c = "EmittedExact" -> EmittedExact(r)
Fails(r) == {c \in Clauses(r) : ~Holds(c, r)}
Init == /\ tid \in DOMAIN Recs
        /\ PrintT(<<"VERDICT", Recs[tid].id, Clauses(Recs[tid]), Fails(Recs[tid])>>)
Next == FALSE /\ tid' = tid
Spec == Init /\ [][Next]_tid
=============================================================================
