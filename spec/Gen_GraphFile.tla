---------------------------- MODULE Gen_GraphFile ----------------------------
(* Files for C20: every single block description and two-block concatenations (second block uncorrupted variants). *)
EXTENDS GraphFile, Json, IOUtils
Cap == atoi(IOEnv.GEN_CAP)
Spread(S, cap) == LET s == SetToSeq(S)  n == Len(s)
                  IN IF n <= cap THEN S ELSE {s[1 + i * (n \div cap)] : i \in 0..(cap - 1)}    \* (i * n would overflow 32 bits)
Good == {b \in BlockDescs : WellDefined(b)}
Clean == {b \in Good : b.corr = "none"}
File(bs) ==     \* bs: sequence of block descriptions
  [lines |-> LET RECURSIVE L(_)
                 L(i) == IF i > Len(bs) THEN <<>> ELSE Lines(bs[i], "graph" \o ToString(i)) \o L(i + 1)
             IN L(1),
   error |-> \E i \in 1..Len(bs) : IsCorrupt(bs[i]),
   graphs |-> [i \in 1..Len(bs) |-> Meaning(bs[i], "graph" \o ToString(i))]]
Singles == {File(<<b>>) : b \in Good}
First == {b \in Clean : b.nhead = 1 /\ ~b.extra /\ b.blanks # 1}        \* (keeps the product below TLC's set-size limit)
Doubles == {File(<<p[1], p[2]>>) : p \in Spread(First \X Good, Cap)}
ASSUME ndJsonSerialize(IOEnv.OUT_FILE, SetToSeq(Singles \cup Doubles))
VARIABLE x
Init == x = 0
Next == FALSE /\ x' = x
Spec == Init /\ [][Next]_x
=============================================================================
