--------------------------- MODULE Trace_NumPaths ---------------------------
(***************************************************************************)
(* C13, generic optimiser: one record = one NumPathsOptimization object    *)
(* and one solve().  events = the runs of the wrapped model the optimiser  *)
(* made, in order, each [k, status as the optimiser saw it, objective].    *)
(* The events are replayed through NumPaths!Run with the logged fields     *)
(* bound to its parameters; Exhaust is a silent step taken when the events *)
(* are used up.  An event no action explains moves to "Rejected".          *)
(*                                                                         *)
(* Clauses of the PROPERTY (C13) compare what the object answered with the *)
(* logged runs; the CONFORMANCE clauses (prefix "Spec.") compare it with   *)
(* the state the specification reached - they say "the code no longer      *)
(* follows NumPaths.tla", which is reported but is not a violation of C13. *)
(***************************************************************************)
EXTENDS NumPaths, Json, IOUtils

Recs == ndJsonDeserialize(IOEnv.TRACE_FILE)
VARIABLES tid, l, why
tvars == <<par, phase, k, ref, found, ret, hist, tid, l, why>>
R == Recs[tid]
Ev == R.events[l]

TInit == /\ tid \in DOMAIN Recs
         /\ par = Recs[tid].par /\ phase = "Searching" /\ k = Recs[tid].par.lo /\ ref = NoRef /\ found = FALSE /\ ret = 0 /\ hist = <<>>
         /\ l = 1 /\ why = "-"

IsEvent == l <= Len(R.events)
TRun == /\ IsEvent /\ phase = "Searching" /\ Ev[1] = k /\ Run(Ev[2], Ev[3]) /\ l' = l + 1 /\ UNCHANGED <<tid, why>>
TUnexplained == /\ IsEvent /\ ~(phase = "Searching" /\ Ev[1] = k /\ k <= Hi)
                /\ why' = (IF phase # "Searching" THEN "run-after-" \o phase ELSE IF Ev[1] # k THEN "candidate-out-of-order" ELSE "candidate-above-max")
                /\ phase' = "Rejected" /\ l' = l + 1
                /\ UNCHANGED <<par, k, ref, found, ret, hist, tid>>
TExhaust == ~IsEvent /\ Exhaust /\ UNCHANGED <<tid, l, why>>
TNext == TRun \/ TUnexplained \/ TExhaust
TSpec == TInit /\ [][TNext]_tvars

-----------------------------------------------------------------------------
ObsSolved == R.solved = TRUE
GotData == R.sol_exc = "none" /\ R.obj_exc = "none"
Done == ~IsEvent /\ ~ENABLED TExhaust
Evs == R.events
LastEv == Evs[Len(Evs)]
ObsStatus == IF R.solve_exc # "none" THEN "Crashed"
             ELSE IF R.status = "solved" THEN "Solved" ELSE IF R.status = "timeout" THEN "Timeout"
             ELSE IF R.status = "unbounded" THEN "Unbounded" ELSE IF R.status = "infeasible" THEN "Infeasible" ELSE "?"

Clauses == {"ReturnedModelProvenOptimal", "ReturnedDataIsThatRuns", "SkippedNeverReturned", "NoDataWhenUnsolved",
            "PreSolveGettersRaise", "SolveReturnsSolved",
            "Spec.EventsExplained", "Spec.Outcome", "Spec.ReturnedCandidate", "Spec.FirstCandidate"}

Applicable(c) ==
  CASE c = "ReturnedModelProvenOptimal" -> ObsSolved
    [] c = "ReturnedDataIsThatRuns" -> ObsSolved /\ GotData /\ R.fractional = FALSE
    [] c = "SkippedNeverReturned" -> ObsSolved
    [] c = "Spec.ReturnedCandidate" -> ObsSolved /\ phase = "Solved"
    [] c = "Spec.Outcome" -> phase # "Rejected" /\ R.fractional = FALSE
    [] c = "Spec.FirstCandidate" -> Len(Evs) > 0
    [] OTHER -> TRUE

Holds(c) ==
  CASE c = "ReturnedModelProvenOptimal" ->
          \* the returned model is the one of the LAST run, and that run was seen as proven optimal
          Len(Evs) > 0 /\ LastEv[1] = R.ret_k /\ LastEv[2] = "Optimal"
    [] c = "ReturnedDataIsThatRuns" -> Len(Evs) > 0 /\ R.obj = LastEv[3] /\ R.same_solution = TRUE
    [] c = "SkippedNeverReturned" -> \A i \in 1..Len(Evs) : Evs[i][2] # "Optimal" => Evs[i][1] # R.ret_k
    [] c = "NoDataWhenUnsolved" -> ~ObsSolved => (R.sol_exc # "none" /\ R.obj_exc # "none")
    [] c = "PreSolveGettersRaise" -> R.pre_sol_exc # "none" /\ R.pre_obj_exc # "none"
    [] c = "SolveReturnsSolved" -> R.solve_exc = "none" => ((R.solve_ret = 1) = ObsSolved)
    [] c = "Spec.EventsExplained" -> phase # "Rejected"
    [] c = "Spec.Outcome" -> ObsStatus = phase /\ (ObsSolved = (phase = "Solved"))
    [] c = "Spec.ReturnedCandidate" -> R.ret_k = ret
    [] c = "Spec.FirstCandidate" -> Evs[1][1] = Lo

App == {c \in Clauses : Applicable(c)}
Fails == {c \in App : ~Holds(c)}
Verdict == Done => PrintT(<<"VERDICT", R.id, App, Fails, phase, why>>)
=============================================================================
