---------------------------- MODULE Trace_Options ----------------------------
(***************************************************************************)
(* C13, what "proved optimal" rests on: the backend reports Optimal when   *)
(* its relative AND absolute gap are below what it was configured with, so *)
(* a solver wrapper that claims optimality at tolerance t must have handed *)
(* t to every gap / feasibility option of the backend (and the time limit, *)
(* thread count and presolve switch it was given to the backend as well).  *)
(* One record = one SolverWrapper constructed with a set of options and    *)
(* the backend's option values read back (ratios value / t in 1/1000).     *)
(***************************************************************************)
EXTENDS Naturals, Sequences, FiniteSets, Json, IOUtils, TLC
Recs == ndJsonDeserialize(IOEnv.TRACE_FILE)
VARIABLE tid
GapOptions == {"mip_rel_gap", "mip_abs_gap", "mip_feasibility_tolerance", "primal_feasibility_tolerance"}
Clauses == {"GapsAtTolerance", "TimeLimitHandedOn", "ThreadsHandedOn", "PresolveHandedOn"}
Holds(c, r) ==
  CASE c = "GapsAtTolerance" -> \A n \in GapOptions : n \in DOMAIN r.ratios /\ r.ratios[n] = 1000
    [] c = "TimeLimitHandedOn" -> r.time_limit_ms = r.want_time_limit_ms
    [] c = "ThreadsHandedOn" -> r.threads = r.want_threads
    [] c = "PresolveHandedOn" -> r.presolve = r.want_presolve
Fails(r) == {c \in Clauses : ~Holds(c, r)}
Init == /\ tid \in DOMAIN Recs /\ PrintT(<<"VERDICT", Recs[tid].id, Clauses, Fails(Recs[tid])>>)
Next == FALSE /\ tid' = tid
Spec == Init /\ [][Next]_tid
=============================================================================
