---------------------------- MODULE Gen_Lifecycle ----------------------------
(* Fault schedules for C13: every complete behaviour of the Lifecycle search (kstar <= MaxK, at most one nested
   helper invocation in front) is printed as <<"BEHAVIOUR", kstar, nested status or "-", hist>>. *)
EXTENDS Lifecycle, TLC

VARIABLE pre            \* status of the nested helper invocation before the search ("-" = none)
gvars == <<phase, n, hist, kstar, nestedFault, pre>>

GInit == LInit /\ pre \in {"-", "Optimal"} \cup Inconclusive
GNext == \/ (Begin /\ UNCHANGED pre)
         \/ (\E s \in Statuses : SolveK(s) /\ UNCHANGED pre)
GSpec == GInit /\ [][GNext]_gvars

Report == IF phase \in {"Solved", "Unsolved"} THEN PrintT(<<"BEHAVIOUR", kstar, pre, hist>>) ELSE TRUE
=============================================================================
