------------------------------- MODULE Adv_Fit -------------------------------
(***************************************************************************)
(* The fitting adversary: every choice of at most k source-to-sink routes  *)
(* with integer weights (and, for k-Minimum-Path-Error, integer slacks)    *)
(* is a behaviour.  acc[e] accumulates weight * traversals, slk[e]         *)
(* accumulates slack * traversals.                                         *)
(*                                                                         *)
(*   k-Least-Absolute-Errors (C07):  objective  sum_e sc(e) * |f(e)-acc(e)|*)
(*   k-Minimum-Path-Error   (C08):  feasible iff for every required e      *)
(*            sc(e) * |f(e) - acc(e)| <= slk(e);   objective  sum of slacks*)
(*                                                                         *)
(* A record carries the observed objective r.obj (fixed point) and k; a    *)
(* reachable idle state whose objective is smaller than the observed one   *)
(* by more than the tolerance is a concrete better solution:               *)
(* <<"WITNESS", id, cnt, objective>>.  With r.want = "any" (the library    *)
(* said "not solved") any feasible idle state is a witness.                *)
(*                                                                         *)
(* Weights range over 0..max f: a route with a larger weight over-explains *)
(* every edge it uses, so lowering it to max f lowers every affected       *)
(* error.  Routes are opened in non-increasing weight order.               *)
(***************************************************************************)
EXTENDS Optimum, Json, IOUtils, TLC

UNIT == 10000
Recs == ndJsonDeserialize(IOEnv.TRACE_FILE)

VARIABLES tid, acc, slk, cur, w, sl, lastw, cnt, tot, hit, sat,
          cura,     \* weight * traversals of the OPEN route per required edge (only tracked when r.prodcap >= 0)
          curs,     \* slack * traversals of the OPEN route per required edge (ditto)
          curn      \* traversals of the OPEN route per required edge (only tracked when r.repcaps is given)
vars == <<tid, acc, slk, cur, w, sl, lastw, cnt, tot, hit, sat, cura, curs, curn>>

R == Recs[tid]
IDLE == "-"
IsMPE(r) == r.cls \in {"kMinPathError", "kMinPathErrorCycles"}
ConsEdges(r) == UNION {ToSet(ECons(r)[j]) : j \in 1..Len(r.cons)}

(* user element behind a required EG edge, to look up its error scale *)
UElem(r, e) == IF IsNodeMode(r) THEN NodeOfExpanded(r, e) ELSE e
Sc(r, e) == LET S == {s \in ToSet(r.escale) : s[1] = UElem(r, e)}
            IN IF S = {} THEN <<1, 1>> ELSE LET s == CHOOSE s \in S : TRUE IN <<s[2], s[3]>>

(* data units -> fixed point:  x * num * UNIT / den *)
ToFx(r, x) == (x * r.num * UNIT) \div r.den

(* LAE objective of an accumulation, in fixed point *)
LAEObjFx(r, a) ==
  SumOver(Req(r), LAMBDA e : (ToFx(r, Abs(Val(r)[e] - a[e])) * Sc(r, e)[1]) \div Sc(r, e)[2])
(* LAE over-explanation so far: a lower bound of the final objective (acc only grows) *)
LAEOverFx(r, a) ==
  SumOver(Req(r), LAMBDA e : (ToFx(r, Max2(0, a[e] - Val(r)[e])) * Sc(r, e)[1]) \div Sc(r, e)[2])

MPEFeasible(r, a, s) ==
  \A e \in Req(r) : Abs(Val(r)[e] - a[e]) * Sc(r, e)[1] <= s[e] * Sc(r, e)[2]

SlackBudget(r) ==   \* largest total slack (data units) that is still strictly better than observed
  IF r.want = "any" THEN r.maxslack
  ELSE ((r.obj - r.tol - 1) * r.den) \div (r.num * UNIT)

RepCap(r, e) == LET S == {t \in ToSet(r.repcaps) : <<t[1], t[2]>> = e} IN IF S = {} THEN 1000000 ELSE (CHOOSE t \in S : TRUE)[3]

Init ==
  /\ tid \in DOMAIN Recs
  /\ acc = [e \in Req(Recs[tid]) |-> 0]
  /\ slk = [e \in Req(Recs[tid]) |-> 0]
  /\ cur = IDLE /\ w = 0 /\ sl = 0 /\ cnt = 0 /\ tot = 0 /\ hit = {} /\ sat = {}
  /\ lastw = MaxVal(Recs[tid])
  /\ cura = [e \in Req(Recs[tid]) |-> 0]
  /\ curs = [e \in Req(Recs[tid]) |-> 0]
  /\ curn = [e \in AG(Recs[tid]).edges |-> 0]

Start(x, s) ==
  /\ cur = IDLE /\ cnt < R.k
  /\ x \in 0..lastw
  /\ s \in (IF IsMPE(R) THEN 0..(SlackBudget(R) - tot) ELSE {0})
  /\ cur' = SRC /\ w' = x /\ sl' = s /\ lastw' = x /\ cnt' = cnt + 1 /\ tot' = tot + s /\ hit' = {}
  /\ cura' = [e \in Req(R) |-> 0] /\ curs' = [e \in Req(R) |-> 0] /\ curn' = [e \in AG(R).edges |-> 0]
  /\ UNCHANGED <<tid, acc, slk, sat>>

Step(e) ==
  /\ cur # IDLE
  /\ e \in Out(AG(R), cur)
  /\ acc' = IF e \in Req(R) THEN [acc EXCEPT ![e] = @ + w] ELSE acc
  /\ slk' = IF e \in Req(R) THEN [slk EXCEPT ![e] = Min2(@ + sl, R.acccap)] ELSE slk   \* saturating: enough is enough
  /\ LET h == IF e \in ConsEdges(R) THEN hit \cup {e} ELSE hit IN
     IF e[2] = SNK
     THEN /\ cur' = IDLE /\ hit' = {}
          /\ sat' = sat \cup {j \in 1..Len(R.cons) : HonouredBy(R, ECons(R)[j], h)}
     ELSE /\ cur' = e[2] /\ hit' = h /\ sat' = sat
  (* Named deviation of the code (known finding KF-C07-product-bound): the walk models bound the product
     multiplicity * weight of ONE walk on ONE edge by k * max f.  With r.prodcap >= 0 the adversary obeys the same
     restriction, which tells whether a witness needs a product beyond that bound. *)
  /\ cura' = IF R.prodcap >= 0 /\ e \in Req(R) THEN [cura EXCEPT ![e] = @ + w] ELSE cura
  /\ (R.prodcap >= 0 /\ e \in Req(R)) => cura[e] + w <= R.prodcap
  /\ curs' = IF R.prodcap >= 0 /\ e \in Req(R) THEN [curs EXCEPT ![e] = @ + sl] ELSE curs
  /\ (R.prodcap >= 0 /\ e \in Req(R)) => curs[e] + sl <= R.prodcap
  (* Second named deviation (KF-C07-repetition-cap): the walk models cap how often ONE walk may traverse an edge
     (r.repcaps: the caps the code itself computed, recorded from the model). *)
  /\ curn' = IF R.repcaps # <<>> THEN [curn EXCEPT ![e] = @ + 1] ELSE curn       \* the code caps ignored edges too
  /\ R.repcaps # <<>> => curn[e] + 1 <= RepCap(R, e)
  /\ UNCHANGED <<tid, w, sl, lastw, cnt, tot>>

Next == (\E x \in 0..lastw : \E s \in 0..(IF IsMPE(R) THEN SlackBudget(R) ELSE 0) : Start(x, s))
        \/ (\E e \in AG(R).edges : Step(e))
Spec == Init /\ [][Next]_vars

Better ==
  /\ cur = IDLE /\ sat = 1..Len(R.cons)
  /\ IF IsMPE(R)
     THEN MPEFeasible(R, acc, slk) /\ tot <= SlackBudget(R)
     ELSE IF R.want = "any" THEN TRUE ELSE LAEObjFx(R, acc) + R.tol < R.obj

ObjNow == IF IsMPE(R) THEN ToFx(R, tot) ELSE LAEObjFx(R, acc)

(* walks on cyclic inputs: cap the accumulation (a walk re-traversing an edge beyond any useful amount) *)
Bounded == \A e \in Req(R) : acc[e] <= R.acccap

Explore ==
  IF Better THEN PrintT(<<"WITNESS", R.id, cnt, ObjNow>>) /\ FALSE
  ELSE /\ ~(cur = IDLE /\ cnt = R.k)
       /\ Bounded
       /\ (IsMPE(R) \/ R.want = "any" \/ LAEOverFx(R, acc) + R.tol < R.obj)

(* design-level invariant: accumulations only grow *)
Monotone == [][\A e \in Req(R) : acc'[e] >= acc[e] /\ slk'[e] >= slk[e]]_vars
=============================================================================
