SPECIFICATION GSpec
CONSTANTS
  Vars = {"x1", "x2", "x3"}
  Vals = {0, 1, 2, 3}
  Costs <- CostsGen
  Offsets = {0, 3}
  D = 9
CONSTRAINT Emit
CHECK_DEADLOCK FALSE
