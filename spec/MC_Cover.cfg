SPECIFICATION Spec
CONSTRAINT Explore
INVARIANT CoveredOnlyRequired
PROPERTY Monotone
CHECK_DEADLOCK FALSE
