--------------------------- MODULE Trace_GraphFile ---------------------------
(* C20 trace validation: what read_graphs returned for a generated file vs. the meaning GraphFile.tla assigns to it. *)
EXTENDS GraphFile, Json, IOUtils
UNIT == 10000
Recs == ndJsonDeserialize(IOEnv.TRACE_FILE)
VARIABLE tid
GraphOK(e, o) ==     \* e: expected meaning, o: observed graph
  /\ o.id = e.id
  /\ {<<t[1], t[2], t[3]>> : t \in ToSet(o.edges)} = {<<x[1], x[2], x[3] * UNIT>> : x \in ToSet(e.edges)}
  /\ \A t \in ToSet(o.edges) : t[4] = "float"
  /\ o.constraints = e.constraints /\ o.has_constraints = TRUE      \* (an empty list of constraints is still a list)
  /\ (e.edges # <<>> => (o.n = e.n /\ o.m = e.m))
Clauses(r) == IF r.error = TRUE THEN {"MalformedRejectedWithValueError"} ELSE {"ParsedFaithfully"}
Holds(c, r) == CASE c = "MalformedRejectedWithValueError" -> r.exc = "ValueError"
                 [] c = "ParsedFaithfully" -> /\ r.exc = "none" /\ Len(r.obs) = Len(r.graphs)
                                              /\ \A i \in 1..Len(r.graphs) : GraphOK(r.graphs[i], r.obs[i])
Fails(r) == {c \in Clauses(r) : ~Holds(c, r)}
TInit == /\ tid \in DOMAIN Recs /\ PrintT(<<"VERDICT", Recs[tid].id, Clauses(Recs[tid]), Fails(Recs[tid])>>)
TNext == FALSE /\ tid' = tid
TSpec == TInit /\ [][TNext]_tid
=============================================================================
