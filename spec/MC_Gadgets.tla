------------------------------ MODULE MC_Gadgets ------------------------------
(* Exhaustive design-level check of the three gadgets on the integer grid up to U: one initial state per point. *)
EXTENDS Gadgets, TLC
CONSTANT U
VARIABLES kind, ub, a, c, p
vars == <<kind, ub, a, c, p>>
Ranges == <<<<0, 1>>, <<2, 4>>, <<5, 5>>>>
Consts == <<3, 1, 4>>
Init == /\ kind \in {"bin", "int", "pw"} /\ ub \in 0..U
        /\ a \in (IF kind = "bin" THEN 0..1 ELSE IF kind = "int" THEN 0..ub ELSE -1..7)
        /\ c \in (IF kind = "pw" THEN {0} ELSE 0..ub)
        /\ p \in (IF kind = "pw" THEN -1..6 ELSE 0..(2 * U + 1))
        /\ (kind = "pw" => ub = 0)
Next == FALSE /\ UNCHANGED vars
Spec == Init /\ [][Next]_vars
BinExact == kind = "bin" => (BinRows(a, c, p, ub) <=> p = a * c)
IntExact == (kind = "int" /\ a * c <= ub) => (IntRows(a, c, p, ub) <=> p = a * c)
InRange(x) == {i \in 1..Len(Ranges) : x >= Ranges[i][1] /\ x <= Ranges[i][2]}
PwExact == kind = "pw" => (PwRows(a, p, Ranges, Consts) <=> (InRange(a) # {} /\ p = Consts[CHOOSE i \in InRange(a) : TRUE]))
=============================================================================
