------------------------------ MODULE Lifecycle ------------------------------
(***************************************************************************)
(* The protocol of a minimum search over k (MinFlowDecomp, MinFlowDecomp-   *)
(* Cycles, MinPathCover, MinPathCoverCycles, MinGenSet) and of a k-model    *)
(* (C13).                                                                   *)
(*                                                                          *)
(* The search tries k = 1st, 2nd, ... candidate; the solver answers each    *)
(* invocation with a status.  The truthful status of the n-th candidate is  *)
(* Infeasible for n < kstar and Optimal for n = kstar; an adversary may     *)
(* replace any answer by an inconclusive one (time limit - native or the    *)
(* wrapper's custom timeout -, interrupt, unknown).                         *)
(*                                                                          *)
(*   Optimal      -> phase Solved     (result: the n-th candidate)          *)
(*   Infeasible   -> next candidate   (or Unsolved when candidates ran out) *)
(*   inconclusive -> phase Unsolved   (NEVER skip to the next candidate)    *)
(*                                                                          *)
(* Getters deliver data only in phase Solved and raise otherwise.           *)
(* solve() may be called again after the search gave up (Retry): it starts  *)
(* over, so an inconclusive answer never counts as a refutation.            *)
(* A nested helper search (min-generating-set lower bound, guessed          *)
(* weights) may fail without harm: the outer search may give up or go on,   *)
(* but what it returns must still be the truthful optimum.                  *)
(***************************************************************************)
EXTENDS Naturals, Sequences, FiniteSets

CONSTANTS MaxK            \* bound on kstar for model checking
Inconclusive == {"TimeLimit", "CustomTimeout", "Interrupt", "Unknown"}
Statuses == {"Optimal", "Infeasible"} \cup Inconclusive

VARIABLES phase, n, hist, kstar, nestedFault
lvars == <<phase, n, hist, kstar, nestedFault>>

Truth(i) == IF i < kstar THEN "Infeasible" ELSE "Optimal"

LInit == /\ kstar \in 1..MaxK /\ phase = "New" /\ n = 0 /\ hist = <<>> /\ nestedFault = FALSE

Begin == /\ phase = "New" /\ phase' = "Searching" /\ n' = 1 /\ UNCHANGED <<hist, kstar, nestedFault>>

(* a nested helper search runs a solver; its failure is remembered but does not decide the outcome *)
Nested(s) == /\ phase \in {"New", "Searching"} /\ s \in Statuses
             /\ nestedFault' = (nestedFault \/ s \in Inconclusive)
             /\ UNCHANGED <<phase, n, hist, kstar>>

SolveK(s) ==
  /\ phase = "Searching"
  /\ s \in {Truth(n)} \cup Inconclusive
  /\ hist' = Append(hist, s)
  /\ CASE s = "Optimal"    -> phase' = "Solved" /\ n' = n
       [] s = "Infeasible" -> phase' = "Searching" /\ n' = n + 1
       [] OTHER            -> phase' = "Unsolved" /\ n' = n
  /\ UNCHANGED <<kstar, nestedFault>>

(* the caller calls solve() again on the same object after it gave up (the error message suggests as much): the
   search starts over from its first candidate - the inconclusive answer refuted nothing *)
Retry == /\ phase = "Unsolved" /\ phase' = "Searching" /\ n' = 1 /\ hist' = <<>> /\ UNCHANGED <<kstar, nestedFault>>

GetData   == phase = "Solved" /\ UNCHANGED lvars       \* get_solution / get_objective_value return
GetRaises == phase # "Solved" /\ UNCHANGED lvars       \* ... or raise

LNext == Begin \/ Retry \/ (\E s \in Statuses : SolveK(s) \/ Nested(s)) \/ GetData \/ GetRaises
LSpec == LInit /\ [][LNext]_lvars

(***************************************************************************)
(* Properties of the design (MC_Lifecycle.cfg)                             *)
(***************************************************************************)
SolvedMeansProvenMinimal ==
  phase = "Solved" => /\ n = kstar /\ Len(hist) = kstar /\ hist[Len(hist)] = "Optimal"
                      /\ \A i \in 1..(Len(hist) - 1) : hist[i] = "Infeasible"
InconclusiveNeverSolved ==
  (\E i \in 1..Len(hist) : hist[i] \in Inconclusive) => phase # "Solved"
NoSkipping == [][(phase = "Searching" /\ n' = n + 1) => hist'[Len(hist')] = "Infeasible"]_lvars
Bounded == Len(hist) <= MaxK
=============================================================================
