SPECIFICATION LSpec
CONSTANT MaxK = 5
INVARIANT SolvedMeansProvenMinimal
INVARIANT InconclusiveNeverSolved
INVARIANT Bounded
PROPERTY NoSkipping
CHECK_DEADLOCK FALSE
