------------------------------- MODULE GenSet -------------------------------
(***************************************************************************)
(* Minimum generating set and minimum set cover (C15) as mathematics.      *)
(***************************************************************************)
EXTENDS Integers, Sequences, FiniteSets, SequencesExt, FiniteSetsExt

RECURSIVE SumSeq(_)
SumSeq(s) == IF s = <<>> THEN 0 ELSE Head(s) + SumSeq(Tail(s))

(* all values sum_i c_i * g_i with 0 <= c_i <= m *)
RECURSIVE Sums(_, _)
Sums(g, m) == IF g = <<>> THEN {0}
              ELSE LET R == Sums(Tail(g), m) IN UNION {{r + c * Head(g) : r \in R} : c \in 0..m}

(* the generators can be split into Len(parts) groups (each generator in exactly one group) with the given sums *)
RECURSIVE Splits(_, _)
Splits(g, parts) ==     \* parts: sequence of remaining amounts
  IF g = <<>> THEN \A j \in 1..Len(parts) : parts[j] = 0
  ELSE \E j \in 1..Len(parts) : parts[j] >= Head(g) /\ Splits(Tail(g), [parts EXCEPT ![j] = @ - Head(g)])

GenSetValid(g, numbers, total, m, pcs) ==
  /\ \A i \in 1..Len(g) : g[i] >= 0
  /\ SumSeq(g) = total
  /\ \A i \in 1..Len(numbers) : numbers[i] \in Sums(g, m)
  /\ \A c \in 1..Len(pcs) : Splits(g, pcs[c])

(* set cover *)
Covers(universe, subsets, chosen) == \A x \in universe : \E i \in chosen : x \in ToSet(subsets[i])
Weight(weights, chosen) == LET RECURSIVE W(_)
                               W(S) == IF S = {} THEN 0 ELSE LET i == CHOOSE j \in S : TRUE IN weights[i] + W(S \ {i})
                           IN W(chosen)
MinCoverWeight(universe, subsets, weights) ==
  LET C == {S \in SUBSET (1..Len(subsets)) : Covers(universe, subsets, S)}
  IN IF C = {} THEN -1 ELSE Min({Weight(weights, S) : S \in C})
=============================================================================
