---------------------------- MODULE MC_NumPaths ----------------------------
(* every parameter combination below the bounds x every oracle (status and objective of each run) *)
EXTENDS NumPaths
MCParams == [lo : 1..2, hi : 1..4, first : BOOLEAN, dabs : {-1, 0, 1}, rnum : {0, 1}, rden : {0, 2}, budget : {"none", "zero"}]
(* the constructor rejects parameter sets without any criterion *)
Accepted == {p \in MCParams : p.first \/ p.dabs >= 0 \/ p.rden > 0}
(* generation: every complete behaviour as a scenario for the real optimiser - parameters, the oracle it consumed, the outcome
   the specification reached, and where the DOCUMENTED delta rule would have stopped *)
Emit == Terminal => PrintT(<<"SCENARIO", par, hist, phase, ret, DocStopsAt(hist)>>)
=============================================================================
