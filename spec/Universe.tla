------------------------------ MODULE Universe ------------------------------
(***************************************************************************)
(* The input universes of DESIGN Appendix A as TLA+ sets.  TLC enumerates  *)
(* them (Gen_*.tla) and writes them out as ndjson; the harness feeds them  *)
(* to the real code.  "For all graphs / flows" in the properties is        *)
(* instantiated with *every* element of these sets.                        *)
(***************************************************************************)
EXTENDS Problems

NamesOf(scheme) ==
  CASE scheme = "plain"   -> <<"a", "b", "c", "d", "e", "f">>
    [] scheme = "numeric" -> <<"0", "2", "3", "4", "5", "1">>   \* repo style: 0 first, 1 last
    [] scheme = "hostile" -> <<"s", "e", "k", "c", "r", "t">>   \* letters of "source"/"sink"

Pairs(n, loops) == {p \in (1..n) \X (1..n) : IF loops THEN TRUE ELSE p[1] # p[2]}
ForwardPairs(n) == {p \in (1..n) \X (1..n) : p[1] < p[2]}
Touched(E) == {e[1] : e \in E} \cup {e[2] : e \in E}

(* DAGs on node indices 1..m (m <= n), every node touched, edges forward *)
DAGShapes(n) == {E \in SUBSET ForwardPairs(n) : E # {} /\ \E m \in 1..n : Touched(E) = 1..m}

IdxGraph(E) == MkGraph(Touched(E), E)

(* every edge lies on a walk from a source to a sink *)
AllEdgesOnSTWalk(G) ==
  LET FromS == ReachSet(G, Sources(G))
      ToT   == CoReachSet(G, Sinks(G))
  IN /\ Sources(G) # {} /\ Sinks(G) # {}
     /\ \A e \in G.edges : e[1] \in FromS /\ e[2] \in ToT

(* digraphs with at least one cycle, sources, sinks, every edge on an s-t walk *)
CycShapes(n, maxE) ==
  {E \in SUBSET Pairs(n, TRUE) :
      /\ E # {} /\ Cardinality(E) <= maxE
      /\ \E m \in 1..n : Touched(E) = 1..m
      /\ ~IsDAG(IdxGraph(E))
      /\ AllEdgesOnSTWalk(IdxGraph(E))}

(***************************************************************************)
(* Motifs: larger hand-picked shapes (5-6 nodes) that the exhaustive       *)
(* universes on <= 4 nodes cannot contain: a bridge shared by two routes   *)
(* between two sources and two sinks, a cycle between them, nested cycles, *)
(* parallel exits of an SCC next to a competing branch, a cycle hanging on *)
(* a cycle.                                                                *)
(***************************************************************************)
MotifShapes ==
  { {<<1,3>>, <<2,3>>, <<3,4>>, <<4,5>>, <<4,6>>},                               \* double diamond (bridge 3->4)
    {<<1,3>>, <<2,3>>, <<3,4>>, <<4,3>>, <<4,5>>, <<4,6>>},                      \* the same with a cycle on the bridge
    {<<1,2>>, <<2,3>>, <<3,2>>, <<3,4>>, <<4,3>>, <<2,5>>},                      \* nested / touching cycles
    {<<1,2>>, <<2,3>>, <<3,2>>, <<2,4>>, <<3,4>>, <<4,6>>, <<2,5>>, <<5,6>>},    \* parallel SCC exits + competing branch
    {<<1,2>>, <<2,6>>, <<2,3>>, <<3,2>>, <<3,4>>, <<4,3>>},                      \* a cycle reachable only through a cycle
    {<<1,2>>, <<1,3>>, <<2,4>>, <<3,4>>, <<4,5>>, <<5,6>>, <<4,6>>},             \* diamond, then bridge, then split
    {<<1,3>>, <<2,3>>, <<3,4>>, <<3,5>>, <<4,6>>, <<5,6>>} }                     \* two sources through a bridge NODE, branches merge again

(***************************************************************************)
(* Planted flows: superpositions of weighted source-to-sink routes.        *)
(***************************************************************************)
STPaths(G) == UNION {PathsFrom(G, s, Sinks(G)) : s \in Sources(G)}
STWalks(G, L) == UNION {WalksFrom(G, s, Sinks(G), L) : s \in Sources(G)}

FlowOf(G, rs, ws) ==   \* rs: sequence of routes, ws: sequence of weights
  [e \in G.edges |-> SumSeq([i \in 1..Len(rs) |-> ws[i] * Count(e, rs[i])])]

(* all (routes, weights) with k routes from R and weights from W, routes as a sorted
   selection (index-increasing, repetitions allowed) to avoid permutations *)
Plantings(R, W, k) ==
  LET RS == SetToSeq(R)
      n  == Len(RS)
      Idx == {s \in [1..k -> 1..n] : \A i \in 1..(k-1) : s[i] <= s[i+1]}
  IN {<<[i \in 1..k |-> RS[s[i]]], w>> : s \in Idx, w \in [1..k -> W]}

PositiveOn(G, f) == \A e \in G.edges : f[e] >= 1
=============================================================================
