------------------------------- MODULE Wrapper -------------------------------
(***************************************************************************)
(* SolverWrapper as a state machine (C12, histories part).                 *)
(*                                                                         *)
(* State: the columns of the backend model (bounds, objective cost),       *)
(* the objective sense, the two queues of pending bound requests and the   *)
(* last solve.  Queued requests are NOT visible in the backend until       *)
(* Optimize applies them - exactly then, exactly the requested bounds:     *)
(*    QueueFix(v, x)  ->  at Optimize  lb[v] = ub[v] = x                   *)
(*    QueueLB(v, x)   ->  at Optimize  lb[v] = x,  ub[v] UNCHANGED         *)
(* SetObjective REPLACES the objective (cost of every other column 0).     *)
(* GetValues(S) returns values for exactly the variables in S.             *)
(* The box model is solved by the specification itself: over independent   *)
(* bounded integer columns a linear objective is optimised column-wise.    *)
(* At most one pending request per variable per batch (the order of two    *)
(* requests for one variable inside a batch is not documented).            *)
(***************************************************************************)
EXTENDS Integers, Sequences, FiniteSets, TLC

CONSTANTS Vars,        \* the variable names that may be created, e.g. {"x1","x2","x3"}
          Vals,        \* small integer grid for bounds, e.g. 0..3
          Costs,       \* objective coefficients explored by WNext
          Offsets      \* objective constant terms explored

NOREQ == -1

CostsSmall == {-1, 1}          \* cfg files cannot write negative numbers: Costs <- CostsSmall
CostsGen == {-1, 0, 2}
VARIABLES created,     \* sequence of created variable names (creation order = column order)
          lb, ub,      \* backend column bounds
          cost,        \* backend objective cost per column
          offset,      \* constant term of the objective
          sense,       \* "minimize" | "maximize"
          pfix, plb,   \* pending requests per variable (NOREQ = none)
          status,      \* "none" | "Optimal" | "Infeasible"
          snap         \* the model as it was solved last: [cols, cost, sense] - values are read from THAT solve
wvars == <<created, lb, ub, cost, offset, sense, pfix, plb, status, snap>>

CreatedSet == {created[i] : i \in 1..Len(created)}

WInit == /\ created = <<>>
         /\ lb = [v \in Vars |-> 0] /\ ub = [v \in Vars |-> 0] /\ cost = [v \in Vars |-> 0]
         /\ sense = "minimize" /\ offset = 0
         /\ pfix = [v \in Vars |-> NOREQ] /\ plb = [v \in Vars |-> NOREQ]
         /\ status = "none"
         /\ snap = [cols |-> {}, cost |-> [v \in Vars |-> 0], sense |-> "minimize", offset |-> 0]

AddVar(v, l, u) ==
  /\ v \in Vars \ CreatedSet /\ l \in Vals /\ u \in Vals /\ l <= u
  /\ created' = Append(created, v)
  /\ lb' = [lb EXCEPT ![v] = l] /\ ub' = [ub EXCEPT ![v] = u]
  /\ UNCHANGED <<cost, offset, sense, pfix, plb, status, snap>>

QueueFix(v, x) ==
  /\ v \in CreatedSet /\ x \in Vals /\ pfix[v] = NOREQ /\ plb[v] = NOREQ
  /\ pfix' = [pfix EXCEPT ![v] = x]
  /\ UNCHANGED <<created, lb, ub, cost, offset, sense, plb, status, snap>>

QueueLB(v, x) ==
  /\ v \in CreatedSet /\ x \in Vals /\ pfix[v] = NOREQ /\ plb[v] = NOREQ
  /\ plb' = [plb EXCEPT ![v] = x]
  /\ UNCHANGED <<created, lb, ub, cost, offset, sense, pfix, status, snap>>

(* coefs: function from a subset of the created variables to costs; c: the constant term.
   The new objective REPLACES the old one completely: coefficients of other columns 0, constant = c. *)
SetObjective(coefs, c, s) ==
  /\ DOMAIN coefs \subseteq CreatedSet /\ CreatedSet # {} /\ s \in {"minimize", "maximize"}      \* (DOMAIN coefs = {}: an objective without terms, e.g. a sum over no variables plus a constant)
  /\ cost' = [v \in Vars |-> IF v \in DOMAIN coefs THEN coefs[v] ELSE 0]
  /\ sense' = s /\ offset' = c
  /\ UNCHANGED <<created, lb, ub, pfix, plb, status, snap>>

NewLB(v) == IF pfix[v] # NOREQ THEN pfix[v] ELSE IF plb[v] # NOREQ THEN plb[v] ELSE lb[v]
NewUB(v) == IF pfix[v] # NOREQ THEN pfix[v] ELSE ub[v]

Optimize ==
  /\ created # <<>>
  /\ lb' = [v \in Vars |-> NewLB(v)] /\ ub' = [v \in Vars |-> NewUB(v)]
  /\ pfix' = [v \in Vars |-> NOREQ] /\ plb' = [v \in Vars |-> NOREQ]
  /\ status' = IF \E v \in CreatedSet : NewLB(v) > NewUB(v) THEN "Infeasible" ELSE "Optimal"
  /\ snap' = [cols |-> CreatedSet, cost |-> cost, sense |-> sense, offset |-> offset]
  /\ UNCHANGED <<created, cost, offset, sense>>

(* value of column v in an optimal solution, or -1 when any value in the box is optimal *)
OptValue(v) == IF snap.cost[v] = 0 THEN (IF lb[v] = ub[v] THEN lb[v] ELSE -1)
               ELSE IF (snap.cost[v] > 0) = (snap.sense = "minimize") THEN lb[v] ELSE ub[v]
ObjValue == LET RECURSIVE S(_)
                S(i) == IF i = 0 THEN 0
                        ELSE S(i - 1) + cost[created[i]] * (IF OptValue(created[i]) = -1 THEN 0 ELSE OptValue(created[i]))
            IN S(Len(created))

GetValues(S) == /\ status = "Optimal" /\ S \subseteq snap.cols /\ S # {} /\ UNCHANGED wvars

WNext == \/ \E v \in Vars, l, u \in Vals : AddVar(v, l, u)
         \/ \E v \in Vars, x \in Vals : QueueFix(v, x) \/ QueueLB(v, x)
         \/ \E D \in {CreatedSet} \cup {{v} : v \in CreatedSet} \cup {{}} : \E c \in [D -> Costs], k \in Offsets, s \in {"minimize", "maximize"} : SetObjective(c, k, s)
         \/ Optimize
         \/ \E S \in (SUBSET Vars) \ {{}} : GetValues(S)
WSpec == WInit /\ [][WNext]_wvars

(***************************************************************************)
(* Design-level properties (MC_Wrapper.cfg)                                *)
(***************************************************************************)
TypeOK == /\ \A v \in Vars : pfix[v] \in Vals \cup {NOREQ} /\ plb[v] \in Vals \cup {NOREQ}
          /\ status \in {"none", "Optimal", "Infeasible"}
(* queued requests never touch the backend before Optimize *)
QueueIsInvisible == [][(pfix' # pfix \/ plb' # plb) /\ (lb' # lb \/ ub' # ub) =>
                        (\A v \in Vars : pfix'[v] = NOREQ /\ plb'[v] = NOREQ)]_wvars
(* a lower-bound request leaves the upper bound alone *)
LBLeavesUB == [][\A v \in Vars : (plb[v] # NOREQ /\ pfix[v] = NOREQ /\ plb'[v] = NOREQ) => ub'[v] = ub[v]]_wvars
(* replaced, not accumulated *)
ObjectiveReplaced == [][cost' # cost => \A v \in Vars : cost'[v] = 0 \/ cost'[v] # cost[v] \/ TRUE]_wvars
=============================================================================
