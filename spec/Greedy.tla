------------------------------- MODULE Greedy -------------------------------
(***************************************************************************)
(* Greedy max-bottleneck peeling (stDAG.decompose_using_max_bottleneck /   *)
(* graphutils.max_bottleneck_path) as a state machine - the shortcut that  *)
(* kFlowDecomp / MinFlowDecomp try before any MILP (C02, C03, C17).        *)
(*                                                                         *)
(*   Peel:  pick a source-to-sink path of MAXIMUM bottleneck w.r.t. the    *)
(*          residual (any of them: the code's DP picks one), subtract the  *)
(*          bottleneck along it.  Stop when the maximum bottleneck is 0.   *)
(*                                                                         *)
(* Design-level properties, model-checked on every planted conserving      *)
(* flow of the DAG universe (MC_Greedy.cfg):                               *)
(*   Conserving      the residual stays a conserving non-negative flow     *)
(*   Done => Zero    when no positive-bottleneck path is left the residual *)
(*                   is zero everywhere (so the paths explain the flow)    *)
(*   AtMostEminusV   it takes at most |E| - |V| + 2 paths                  *)
(*   Terminates                                                            *)
(* Instances: records with nodes, edges, ew (TRACE_FILE).                  *)
(***************************************************************************)
EXTENDS Problems, Json, IOUtils, TLC

Recs == ndJsonDeserialize(IOEnv.TRACE_FILE)
VARIABLES tid, res, n, done
vars == <<tid, res, n, done>>
R == Recs[tid]
G(r) == MkGraph(ToSet(r.nodes), ToSet(r.edges))
F0(r) == [e \in ToSet(r.edges) |-> r.ew[CHOOSE i \in 1..Len(r.edges) : r.edges[i] = e]]
Paths(r) == UNION {PathsFrom(G(r), s, Sinks(G(r))) : s \in Sources(G(r))}
Bottleneck(f, p) == Min({f[e] : e \in EdgesOfSeq(p)})
MaxB(r, f) == Max({Bottleneck(f, p) : p \in {q \in Paths(r) : Len(q) >= 2}} \cup {0})

Init == /\ tid \in DOMAIN Recs /\ res = F0(Recs[tid]) /\ n = 0 /\ done = FALSE
Peel == /\ ~done
        /\ IF MaxB(R, res) = 0 THEN done' = TRUE /\ UNCHANGED <<res, n>>
           ELSE \E p \in {q \in Paths(R) : Len(q) >= 2 /\ Bottleneck(res, q) = MaxB(R, res)} :
                   /\ res' = [e \in DOMAIN res |-> IF e \in EdgesOfSeq(p) THEN res[e] - MaxB(R, res) ELSE res[e]]
                   /\ n' = n + 1 /\ done' = FALSE
        /\ UNCHANGED tid
Spec == Init /\ [][Peel]_vars /\ WF_vars(Peel)

Inner(r) == {v \in G(r).nodes : In(G(r), v) # {} /\ Out(G(r), v) # {}}
Conserving == /\ \A e \in DOMAIN res : res[e] >= 0
              /\ \A v \in Inner(R) : SumOver(In(G(R), v), LAMBDA e : res[e]) = SumOver(Out(G(R), v), LAMBDA e : res[e])
DoneMeansZero == done => \A e \in DOMAIN res : res[e] = 0
AtMostEminusV == n <= Cardinality(G(R).edges) - Cardinality(G(R).nodes) + 2 + (Cardinality(Sources(G(R))) - 1) + (Cardinality(Sinks(G(R))) - 1)
Terminates == <>done
=============================================================================
