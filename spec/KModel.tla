------------------------------- MODULE KModel -------------------------------
(***************************************************************************)
(* The lifecycle of ONE k-model object (kFlowDecomp, kMinPathError,        *)
(* kLeastAbsErrors, kPathCover and their Cycles variants) when it is       *)
(* solved more than once (C13: "is_solved() only after its solver proved   *)
(* optimality of the CURRENT model; getters before that raise").           *)
(*                                                                         *)
(*   Solve(s)   runs the solver on the model as it is now; s is the status *)
(*              the library sees (an adversary may turn any run into an    *)
(*              inconclusive one).  Optimal -> Solved, and what the        *)
(*              getters deliver from now on is the optimum of version ver; *)
(*              anything else -> Unsolved, nothing is delivered.           *)
(*   Tighten    the caller adds a constraint to the underlying solver      *)
(*              (version ver+1).  The library cannot see this; what it     *)
(*              delivers still belongs to the version it proved.           *)
(*   Get        delivers data of version `proved` in phase Solved,         *)
(*              raises otherwise.                                          *)
(*                                                                         *)
(* Consequence checked on the code (Trace_KModel): after a re-solve the    *)
(* getters never deliver data of an EARLIER version - neither after an     *)
(* unsuccessful re-solve (they raise) nor after a successful one (the      *)
(* data honours every constraint added before that solve).                 *)
(***************************************************************************)
EXTENDS Naturals, Sequences, FiniteSets, TLC

CONSTANT D                       \* bound on the number of operations (model checking / generation)
Inconclusive == {"TimeLimit", "CustomTimeout", "Interrupt", "Unknown"}
Statuses == {"Optimal", "Infeasible"} \cup Inconclusive

VARIABLES ph,        \* "New" | "Solved" | "Unsolved"
          ver,       \* number of constraints the caller has added
          proved,    \* version whose optimum the getters deliver (meaningful in phase Solved)
          lastrun,   \* version of the model at the most recent Solve
          nops
kvars == <<ph, ver, proved, lastrun, nops>>

KInit == ph = "New" /\ ver = 0 /\ proved = 0 /\ lastrun = 0 /\ nops = 0

KSolve(s) == /\ s \in Statuses
             /\ ph' = (IF s = "Optimal" THEN "Solved" ELSE "Unsolved")
             /\ proved' = (IF s = "Optimal" THEN ver ELSE proved)
             /\ lastrun' = ver
             /\ nops' = nops + 1 /\ UNCHANGED ver
KTighten == ver' = ver + 1 /\ nops' = nops + 1 /\ UNCHANGED <<ph, proved, lastrun>>
KGetData == ph = "Solved" /\ nops' = nops + 1 /\ UNCHANGED <<ph, ver, proved, lastrun>>
KGetRaises == ph # "Solved" /\ nops' = nops + 1 /\ UNCHANGED <<ph, ver, proved, lastrun>>

KNext == nops < D /\ ((\E s \in Statuses : KSolve(s)) \/ KTighten \/ KGetData \/ KGetRaises)
KSpec == KInit /\ [][KNext]_kvars

(* what is delivered is the optimum of the model as it was at the most recent solver run *)
DeliveredIsLastRun == ph = "Solved" => proved = lastrun
(* data is delivered only after a run that proved optimality *)
NeverStale == [][(KGetData => proved = lastrun)]_kvars
=============================================================================
