SPECIFICATION TSpec
CONSTANT MaxK = 99
CONSTRAINT Verdict
CHECK_DEADLOCK FALSE
