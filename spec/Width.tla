-------------------------------- MODULE Width --------------------------------
(***************************************************************************)
(* How stDiGraph.get_width computes the walk-cover width (C09, and the     *)
(* lower bound every Min* search starts from), as mathematics:             *)
(*                                                                         *)
(*  1. condense the augmented graph into its strongly connected components *)
(*  2. split every NON-TRIVIAL component C (one with an internal edge)     *)
(*     into an edge (in(C), out(C));  an inter-component edge C1 -> C2     *)
(*     becomes (out(C1) or C1, in(C2))                                     *)
(*  3. weights: the split edge of C weighs 1 if some internal edge of C is *)
(*     not ignored, else 0; a condensation edge weighs the number of       *)
(*     original, non-ignored edges between the two components              *)
(*  4. width = maximum weight of an antichain of edges of that DAG         *)
(*                                                                         *)
(* Design theorem (MC_Width.cfg, every shape of the universe x ignore      *)
(* sets): the result equals the plain definition - the largest set of      *)
(* non-ignored edges of the augmented graph no two of which lie on a       *)
(* common walk (by Dilworth's theorem for preorders this is the minimum    *)
(* number of source-to-sink walks covering the non-ignored edges; that     *)
(* last equality is what C09 checks on the real get_width with the Cover   *)
(* adversary).                                                             *)
(***************************************************************************)
EXTENDS Problems, Json, IOUtils, TLC

Recs == ndJsonDeserialize(IOEnv.TRACE_FILE)
VARIABLES tid, ign
R == Recs[tid]
A(r) == Augment(MkGraph(ToSet(r.nodes), ToSet(r.edges)), {}, {})

(* plain definition *)
Follows(a, e1, e2) == e2[1] \in ReachFrom(a, e1[2])
Incomparable(a, S) == \A e1, e2 \in S : e1 # e2 => ~Follows(a, e1, e2) /\ ~Follows(a, e2, e1)
PlainWidth(a, I) == LET Q == a.edges \ I IN
                    Max({Cardinality(S) : S \in {T \in SUBSET Q : Incomparable(a, T)}})

(* the construction *)
Comp(a, v) == {u \in a.nodes : v \in ReachFrom(a, u) /\ u \in ReachFrom(a, v)}
Comps(a) == {Comp(a, v) : v \in a.nodes}
Internal(a, C) == {e \in a.edges : e[1] \in C /\ e[2] \in C}
NonTrivial(a, C) == Internal(a, C) # {}
Between(a, C1, C2) == {e \in a.edges : e[1] \in C1 /\ e[2] \in C2}
(* edges of the expanded condensation: <<"split", C>> or <<"link", C1, C2>> *)
Links(a) == {x \in {<<"link", C1, C2>> : C1, C2 \in Comps(a)} : x[2] # x[3] /\ Between(a, x[2], x[3]) # {}}
XEdges(a) == {<<"split", C, C>> : C \in {D \in Comps(a) : NonTrivial(a, D)}} \cup Links(a)
XWeight(a, I, x) == IF x[1] = "split" THEN (IF Internal(a, x[2]) \ I # {} THEN 1 ELSE 0)
                    ELSE Cardinality(Between(a, x[2], x[3]) \ I)
(* x1 can be followed by x2 on a walk of the expanded condensation *)
CompReach(a, C1, C2) == \E u \in C1, v \in C2 : v \in ReachFrom(a, u)
XFollows(a, x1, x2) == x1 # x2 /\ CompReach(a, x1[3], x2[2])
XIncomparable(a, S) == \A x1, x2 \in S : x1 # x2 => ~XFollows(a, x1, x2) /\ ~XFollows(a, x2, x1)
ConstructedWidth(a, I) == Max({SumOver(S, LAMBDA x : XWeight(a, I, x)) : S \in {T \in SUBSET XEdges(a) : XIncomparable(a, T)}} \cup {0})

SSE(a) == {e \in a.edges : e[1] = SRC \/ e[2] = SNK}
Init == /\ tid \in DOMAIN Recs
        /\ ign \in {SSE(A(Recs[tid])) \cup J : J \in {K \in SUBSET ToSet(Recs[tid].edges) : Cardinality(K) <= 2}}
Next == FALSE /\ UNCHANGED <<tid, ign>>
Spec == Init /\ [][Next]_<<tid, ign>>
ConstructionMatchesDefinition == ConstructedWidth(A(R), ign) = PlainWidth(A(R), ign)
=============================================================================
