SPECIFICATION Spec
CONSTRAINT Explore
INVARIANT ResNonNeg
PROPERTY Conservation
CHECK_DEADLOCK FALSE
