SPECIFICATION TSpec
CONSTRAINT Verdict
CHECK_DEADLOCK FALSE
