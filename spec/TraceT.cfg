SPECIFICATION TSpec
CHECK_DEADLOCK FALSE
