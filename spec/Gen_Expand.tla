------------------------------ MODULE Gen_Expand ------------------------------
(***************************************************************************)
(* C11: for every node-weighted instance in IN_FILE writes the explicit    *)
(* edge-weighted expansion the specification (Graphs!Expand) prescribes:   *)
(* node v -> edge (v.0, v.1) carrying v's value, original edge (u,v) ->    *)
(* unweighted link (u.1, v.0); all links and the node-edges of nodes       *)
(* without a value are ignored; starts -> v.0, ends -> v.1; ignored nodes  *)
(* -> their node-edges; constraints expanded as Optimum!ExpandCons.        *)
(***************************************************************************)
EXTENDS Optimum, Json, IOUtils, TLC

InRecs == ndJsonDeserialize(IOEnv.IN_FILE)

Exp(r) ==
  LET G  == UGraph(r)
      X  == Expand(G)
      ns == SetToSeq(X.nodes)
      es == SetToSeq(X.edges)
      NodeEdges == {ExpandedNodeEdge(v) : v \in G.nodes}
      val(e) == IF e \in NodeEdges THEN r.nw[NIdx(r, NodeOfExpanded(r, e))] ELSE NONE
      ign == (X.edges \ NodeEdges)
             \cup {e \in NodeEdges : val(e) = NONE /\ r.cls \notin CoverClasses}
             \cup {ExpandedNodeEdge(v) : v \in ToSet(r.ign)}
  IN [id |-> r.id, nodes |-> ns, edges |-> es,
      ew |-> [i \in 1..Len(es) |-> val(es[i])],
      ign |-> SetToSeq(ign),
      starts |-> SetToSeq({Dot0(v) : v \in ToSet(r.starts)}),
      ends |-> SetToSeq({Dot1(v) : v \in ToSet(r.ends)}),
      cons |-> ECons(r),
      escale |-> [i \in 1..Len(r.escale) |-> <<ExpandedNodeEdge(r.escale[i][1]), r.escale[i][2], r.escale[i][3]>>]]

ASSUME ndJsonSerialize(IOEnv.OUT_FILE, [i \in 1..Len(InRecs) |-> Exp(InRecs[i])])

VARIABLE x
Init == x = 0
Next == FALSE /\ x' = x
Spec == Init /\ [][Next]_x
=============================================================================
