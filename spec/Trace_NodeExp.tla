---------------------------- MODULE Trace_NodeExp ----------------------------
(***************************************************************************)
(* C11 (substrate part): what NodeExpandedDiGraph built and what its       *)
(* translation helpers returned, validated against Graphs!Expand.          *)
(***************************************************************************)
EXTENDS Optimum, Json, IOUtils, TLC

Recs == ndJsonDeserialize(IOEnv.TRACE_FILE)
VARIABLE tid

G(r) == UGraph(r)
X(r) == Expand(G(r))
NodeEdges(r) == {ExpandedNodeEdge(v) : v \in G(r).nodes}
HasVal(r, v) == r.nw[NIdx(r, v)] # NONE

Clauses == {"Builds", "NodesAreExpand", "EdgesAreExpand", "IgnoreImplied", "ValuesCopied", "ElementMap",
            "StartsEnds", "NodeConstraints", "EdgeConstraints", "RoundTrip", "CondensedGraph"}

Holds(c, r) ==
  CASE c = "Builds" -> r.exc = "none"
    [] c = "NodesAreExpand" -> ToSet(r.x_nodes) = X(r).nodes
    [] c = "EdgesAreExpand" -> ToSet(r.x_edges) = X(r).edges
    [] c = "IgnoreImplied"  -> ToSet(r.x_ign) = (X(r).edges \ NodeEdges(r))
                                                \cup {ExpandedNodeEdge(v) : v \in {u \in G(r).nodes : ~HasVal(r, u)}}
    [] c = "ValuesCopied"   -> ToSet(r.x_flow) = {<<Dot0(v), Dot1(v), r.nw[NIdx(r, v)]>> : v \in {u \in G(r).nodes : HasVal(r, u)}}
    [] c = "ElementMap"     -> /\ \A v \in G(r).nodes : <<v, Dot0(v), Dot1(v)>> \in ToSet(r.x_elems)
                               /\ \A e \in G(r).edges : <<e[1] \o "->" \o e[2], Dot1(e[1]), Dot0(e[2])>> \in ToSet(r.x_elems)
    [] c = "StartsEnds"     -> /\ r.x_starts = [i \in 1..Len(r.qstarts) |-> Dot0(r.qstarts[i])]
                               /\ r.x_ends = [i \in 1..Len(r.qends) |-> Dot1(r.qends[i])]
    [] c = "NodeConstraints" -> r.x_cons = [j \in 1..Len(r.paths) |-> [i \in 1..Len(r.paths[j]) |-> ExpandedNodeEdge(r.paths[j][i])]]
    [] c = "EdgeConstraints" ->
         \* an edge-form constraint expands to node-edge, link, node-edge, ... : contains every link and both endpoints' node-edges
         \A j \in 1..Len(r.x_cons_e) :
            /\ \A i \in 1..Len(r.cons_e_src[j]) :
                 /\ ExpandedLinkEdge(r.cons_e_src[j][i]) \in ToSet(r.x_cons_e[j])
                 /\ ExpandedNodeEdge(r.cons_e_src[j][i][1]) \in ToSet(r.x_cons_e[j])
                 /\ ExpandedNodeEdge(r.cons_e_src[j][i][2]) \in ToSet(r.x_cons_e[j])
            /\ ToSet(r.x_cons_e[j]) \subseteq X(r).edges
    [] c = "RoundTrip"      -> r.rt_exc = "none" /\ r.rt_paths = r.paths
    [] c = "CondensedGraph" ->
         \* after the values on the node-edges were replaced by r.nw2 (0 included): the condensed graph is the original graph
         \* whose nodes carry exactly these values (nodes without a value stay without one)
         /\ r.cg_exc = "none" /\ ToSet(r.cg_nodes) = G(r).nodes /\ ToSet(r.cg_edges) = G(r).edges
         /\ ToSet(r.cg_flow) = {<<v, r.nw2[NIdx(r, v)]>> : v \in {u \in G(r).nodes : HasVal(r, u)}}

App(r) == IF r.exc = "none" THEN Clauses ELSE {"Builds"}
Fails(r) == {c \in App(r) : ~Holds(c, r)}
Init == /\ tid \in DOMAIN Recs
        /\ PrintT(<<"VERDICT", Recs[tid].id, App(Recs[tid]), Fails(Recs[tid])>>)
Next == FALSE /\ tid' = tid
Spec == Init /\ [][Next]_tid
=============================================================================
