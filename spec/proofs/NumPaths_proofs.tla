--------------------------- MODULE NumPaths_proofs ---------------------------
(***************************************************************************)
(* TLAPS proof that NumPaths.tla satisfies ReturnedIsProven (C13: "the     *)
(* generic number-of-paths optimiser only ever returns a model that was    *)
(* itself proven optimal for its k") and NoReturnUnlessSolved for EVERY    *)
(* parameter set, every number of candidates and every oracle (TLC checks  *)
(* 352 parameter sets, 4 candidates, objectives 0..2).                     *)
(***************************************************************************)
EXTENDS NumPaths, TLAPS

ASSUME MaxObjNat == MaxObj \in Nat
ASSUME ParamsTyped == \A p \in Params : p.lo \in Int        \* the first candidate is an integer (nothing else about the parameters is used)

Entry == Int \X STRING \X Int
TypeOK == /\ hist \in Seq(Entry)
          /\ k \in Int
IndInv == /\ TypeOK
          /\ ReturnedIsProven
          /\ NoReturnUnlessSolved

LEMMA InitInd == NInit => IndInv
  BY ParamsTyped DEF NInit, IndInv, TypeOK, Entry, ReturnedIsProven, NoReturnUnlessSolved, Lo

LEMMA RunInd == ASSUME IndInv, NEW st \in Statuses, NEW obj \in Int, Run(st, obj)
                PROVE IndInv'
<1>1. hist' = Append(hist, <<k, st, obj>>) /\ k' = k + 1 /\ phase = "Searching"
  BY DEF Run
<1>2. <<k, st, obj>> \in Entry
  BY DEF IndInv, TypeOK, Entry, Statuses, Inconclusive
<1>3. TypeOK'
  BY <1>1, <1>2 DEF IndInv, TypeOK
<1>4. Len(hist') = Len(hist) + 1 /\ hist'[Len(hist')] = <<k, st, obj>> /\ Len(hist') > 0
  BY <1>1, <1>2 DEF IndInv, TypeOK
<1>5. phase' = "Solved" => (st = "Optimal" /\ ret' = k)
  BY DEF Run
<1>6. phase' # "Solved" => ret' = 0
  BY DEF Run, IndInv, NoReturnUnlessSolved
<1>7. ReturnedIsProven'
  BY <1>4, <1>5 DEF ReturnedIsProven, Last
<1>8. NoReturnUnlessSolved'
  BY <1>6 DEF NoReturnUnlessSolved
<1> QED BY <1>3, <1>7, <1>8 DEF IndInv

LEMMA NextInd == IndInv /\ [NNext]_nvars => IndInv'
<1> SUFFICES ASSUME IndInv, [NNext]_nvars PROVE IndInv'
  OBVIOUS
<1>1. ASSUME NEW st \in Statuses, NEW obj \in 0..MaxObj, Run(st, IF st = "Optimal" THEN obj ELSE 0) PROVE IndInv'
  <2>1. (IF st = "Optimal" THEN obj ELSE 0) \in Int
    BY MaxObjNat
  <2> QED BY <1>1, <2>1, RunInd
<1>2. CASE Exhaust
  BY <1>2 DEF Exhaust, IndInv, TypeOK, ReturnedIsProven, NoReturnUnlessSolved, Last
<1>3. CASE UNCHANGED nvars
  BY <1>3 DEF nvars, IndInv, TypeOK, ReturnedIsProven, NoReturnUnlessSolved, Last
<1> QED BY <1>1, <1>2, <1>3 DEF NNext

THEOREM ReturnedIsAlwaysProven == NSpec => [](ReturnedIsProven /\ NoReturnUnlessSolved)
<1>1. NInit /\ [][NNext]_nvars => []IndInv
  BY InitInd, NextInd, PTL
<1>2. IndInv => ReturnedIsProven /\ NoReturnUnlessSolved
  BY DEF IndInv
<1> QED BY <1>1, <1>2, PTL DEF NSpec
=============================================================================
