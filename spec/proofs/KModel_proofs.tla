---------------------------- MODULE KModel_proofs ----------------------------
(***************************************************************************)
(* TLAPS proof that KModel.tla satisfies DeliveredIsLastRun for every      *)
(* bound D and every number of operations (TLC checks D = 6).              *)
(***************************************************************************)
EXTENDS KModel, TLAPS

LEMMA InitInd == KInit => DeliveredIsLastRun
  BY DEF KInit, DeliveredIsLastRun

LEMMA NextInd == DeliveredIsLastRun /\ [KNext]_kvars => DeliveredIsLastRun'
<1> SUFFICES ASSUME DeliveredIsLastRun, [KNext]_kvars PROVE DeliveredIsLastRun'
  OBVIOUS
<1>1. ASSUME NEW s \in Statuses, KSolve(s) PROVE DeliveredIsLastRun'
  BY <1>1 DEF KSolve, DeliveredIsLastRun
<1>2. CASE KTighten
  BY <1>2 DEF KTighten, DeliveredIsLastRun
<1>3. CASE KGetData
  BY <1>3 DEF KGetData, DeliveredIsLastRun
<1>4. CASE KGetRaises
  BY <1>4 DEF KGetRaises, DeliveredIsLastRun
<1>5. CASE UNCHANGED kvars
  BY <1>5 DEF kvars, DeliveredIsLastRun
<1> QED BY <1>1, <1>2, <1>3, <1>4, <1>5 DEF KNext

THEOREM DeliveredIsAlwaysLastRun == KSpec => []DeliveredIsLastRun
  BY InitInd, NextInd, PTL DEF KSpec
=============================================================================
