-------------------------- MODULE Lifecycle_proofs --------------------------
(***************************************************************************)
(* TLAPS proof that the min-search protocol of Lifecycle.tla satisfies     *)
(* SolvedMeansProvenMinimal and InconclusiveNeverSolved for EVERY kstar    *)
(* (TLC checks them for kstar <= MaxK only).                               *)
(***************************************************************************)
EXTENDS Lifecycle, TLAPS, SequenceTheorems

Phases == {"New", "Searching", "Solved", "Unsolved"}

IndInv ==
  /\ phase \in Phases
  /\ n \in Nat
  /\ kstar \in Nat \ {0}
  /\ hist \in Seq(Statuses)
  /\ phase = "New" => n = 0 /\ hist = <<>>
  /\ phase = "Searching" => /\ n >= 1 /\ n <= kstar /\ Len(hist) = n - 1
                            /\ \A i \in 1..Len(hist) : hist[i] = "Infeasible"
  /\ phase = "Solved" => /\ n = kstar /\ Len(hist) = kstar /\ hist[Len(hist)] = "Optimal"
                         /\ \A i \in 1..(Len(hist) - 1) : hist[i] = "Infeasible"

LEMMA InitInd == LInit => IndInv
  BY DEF LInit, IndInv, Phases

LEMMA NextInd == IndInv /\ [LNext]_lvars => IndInv'
<1> SUFFICES ASSUME IndInv, [LNext]_lvars PROVE IndInv'
  OBVIOUS
<1>1. CASE Begin
  BY <1>1 DEF Begin, IndInv, Phases
<1>7. CASE Retry
  BY <1>7 DEF Retry, IndInv, Phases
<1>2. ASSUME NEW s \in Statuses, Nested(s) PROVE IndInv'
  BY <1>2 DEF Nested, IndInv, Phases
<1>3. ASSUME NEW s \in Statuses, SolveK(s) PROVE IndInv'
  <2>0. /\ phase = "Searching" /\ n >= 1 /\ n <= kstar /\ Len(hist) = n - 1 /\ n \in Nat /\ kstar \in Nat
        /\ hist \in Seq(Statuses) /\ hist' = Append(hist, s) /\ kstar' = kstar
        /\ \A i \in 1..Len(hist) : hist[i] = "Infeasible"
    BY <1>3 DEF SolveK, IndInv
  <2>1. /\ hist' \in Seq(Statuses) /\ Len(hist') = n
        /\ hist'[Len(hist')] = s
        /\ \A i \in 1..(Len(hist') - 1) : hist'[i] = "Infeasible"
    BY <2>0, AppendProperties
  <2>2. CASE s = "Optimal"
    <3>1. phase' = "Solved" /\ n' = n
      BY <1>3, <2>2 DEF SolveK
    <3>2. n = kstar
      BY <1>3, <2>2, <2>0 DEF SolveK, Truth, Inconclusive
    <3> QED BY <3>1, <3>2, <2>0, <2>1, <2>2 DEF IndInv, Phases
  <2>3. CASE s = "Infeasible"
    <3>1. phase' = "Searching" /\ n' = n + 1
      BY <1>3, <2>3 DEF SolveK
    <3>2. n < kstar
      BY <1>3, <2>3, <2>0 DEF SolveK, Truth, Inconclusive
    <3>3. \A i \in 1..Len(hist') : hist'[i] = "Infeasible"
      BY <2>0, <2>1, <2>3
    <3> QED BY <3>1, <3>2, <3>3, <2>0, <2>1 DEF IndInv, Phases
  <2>4. CASE s \notin {"Optimal", "Infeasible"}
    <3>1. phase' = "Unsolved" /\ n' = n
      BY <1>3, <2>4 DEF SolveK
    <3> QED BY <3>1, <2>0, <2>1 DEF IndInv, Phases
  <2> QED BY <2>2, <2>3, <2>4
<1>4. CASE GetData
  BY <1>4 DEF GetData, lvars, IndInv
<1>5. CASE GetRaises
  BY <1>5 DEF GetRaises, lvars, IndInv
<1>6. CASE UNCHANGED lvars
  BY <1>6 DEF lvars, IndInv
<1> QED BY <1>1, <1>2, <1>3, <1>4, <1>5, <1>6, <1>7 DEF LNext

THEOREM SolvedIsMinimalForEveryKstar == LSpec => [](SolvedMeansProvenMinimal /\ InconclusiveNeverSolved)
<1>1. IndInv => SolvedMeansProvenMinimal /\ InconclusiveNeverSolved
  <2> SUFFICES ASSUME IndInv PROVE SolvedMeansProvenMinimal /\ InconclusiveNeverSolved
    OBVIOUS
  <2>1. SolvedMeansProvenMinimal
    BY DEF IndInv, SolvedMeansProvenMinimal
  <2>2. InconclusiveNeverSolved
    <3> SUFFICES ASSUME phase = "Solved", NEW i \in 1..Len(hist), hist[i] \in Inconclusive PROVE FALSE
      BY DEF InconclusiveNeverSolved
    <3>1. Len(hist) \in Nat /\ (i = Len(hist) \/ i \in 1..(Len(hist) - 1))
      BY DEF IndInv
    <3> QED BY <3>1 DEF IndInv, Inconclusive
  <2> QED BY <2>1, <2>2
<1> QED BY InitInd, NextInd, <1>1, PTL DEF LSpec
=============================================================================
