----------------------------- MODULE Adv_FlowSafe -----------------------------
(***************************************************************************)
(* Flow-safe paths (C06, flow variant).  A path P is safe for a flow f iff *)
(* every decomposition of f into weighted source-to-sink paths has a path  *)
(* containing P.  Decompositions avoiding P correspond to flows in the     *)
(* product of the graph with the matching automaton of P (without its      *)
(* accepting state) - an integral polytope - so it suffices to search      *)
(* decompositions into UNIT paths: this machine peels unit paths that      *)
(* never complete P; reaching residual zero is a decomposition in which no *)
(* path contains P, i.e. a witness that P is NOT safe.                     *)
(* One record = one (graph, flow, P); <<"WITNESS", id, 0>> on refutation.  *)
(***************************************************************************)
EXTENDS Optimum, Json, IOUtils, TLC

Recs == ndJsonDeserialize(IOEnv.TRACE_FILE)
VARIABLES tid, res, cur, j
vars == <<tid, res, cur, j>>
R == Recs[tid]
IDLE == "-"
P(r) == r.seq
Adv(S, k, e) == IF k < Len(S) /\ S[k + 1] = e THEN k + 1 ELSE k

Init == /\ tid \in DOMAIN Recs /\ res = Val(Recs[tid]) /\ cur = IDLE /\ j = 0

Start == /\ cur = IDLE /\ cur' = SRC /\ j' = 0 /\ UNCHANGED <<tid, res>>
Step(e) ==
  /\ cur # IDLE /\ e \in Out(AG(R), cur)
  /\ (e \in Req(R) => res[e] >= 1)
  /\ LET k == Adv(P(R), j, e) IN
     /\ k < Len(P(R))                       \* never complete P
     /\ j' = k
  /\ res' = IF e \in Req(R) THEN [res EXCEPT ![e] = @ - 1] ELSE res
  /\ cur' = IF e[2] = SNK THEN IDLE ELSE e[2]
  /\ UNCHANGED tid
Next == Start \/ \E e \in AG(R).edges : Step(e)
Spec == Init /\ [][Next]_vars

Goal == cur = IDLE /\ \A e \in Req(R) : res[e] = 0
Explore == IF Goal THEN PrintT(<<"WITNESS", R.id, 0>>) /\ FALSE ELSE TRUE
=============================================================================
