----------------------------- MODULE Apa_Gadgets -----------------------------
(***************************************************************************)
(* Unbounded check of the binary McCormick gadget with Apalache (SMT):     *)
(* for ALL integers ub >= 0, b in {0,1}, 0 <= c <= ub and ALL integers p:  *)
(*        BinRows(b, c, p, ub)  <=>  p = b * c                             *)
(* (TLC checks the same on the grid ub <= 12 in MC_Gadgets.)  Run:         *)
(*   apalache-mc check --init=Init --inv=BinExact --length=0 Apa_Gadgets.tla *)
(***************************************************************************)
EXTENDS Integers
VARIABLES
  \* @type: Int;
  b,
  \* @type: Int;
  c,
  \* @type: Int;
  p,
  \* @type: Int;
  ub

BinRows == /\ p <= ub * b
           /\ p >= 0
           /\ p <= c
           /\ p >= c - ub * (1 - b)

Init == /\ ub \in Int /\ ub >= 0
        /\ b \in {0, 1}
        /\ c \in Int /\ c >= 0 /\ c <= ub
        /\ p \in Int
Next == UNCHANGED <<b, c, p, ub>>
BinExact == BinRows <=> (p = b * c)
=============================================================================
