SPECIFICATION NSpec
CONSTANT MaxObj = 2
CONSTANT Params <- Accepted
CONSTRAINT Emit
CHECK_DEADLOCK FALSE
