--------------------------- MODULE Trace_Substrate ---------------------------
(***************************************************************************)
(* C17 trace validation: every answer of a recorded query history on a     *)
(* real stDAG / stDiGraph must equal what a direct search on the augmented *)
(* graph gives (Graphs.tla), whatever was asked before.                    *)
(***************************************************************************)
EXTENDS Problems, Json, IOUtils, TLC
NONE == -999999
UNIT == 10000
Recs == ndJsonDeserialize(IOEnv.TRACE_FILE)
VARIABLES tid, l, bad
R == Recs[tid]
UG(r) == MkGraph(ToSet(r.nodes), ToSet(r.edges))
A(r) == Augment(UG(r), ToSet(r.starts), ToSet(r.ends))
Ev == R.events[l]
Wt(r, e) == LET S == {i \in 1..Len(r.edges) : r.edges[i] = e} IN IF S = {} THEN 0 ELSE r.ew[CHOOSE i \in S : TRUE]

EdgeReach(a, e1, e2) == e2[1] \in ReachFrom(a, e1[2])          \* e2 can follow e1 on a walk
IsAntichain(a, S) == \A e1, e2 \in S : e1 # e2 => ~EdgeReach(a, e1, e2) /\ ~EdgeReach(a, e2, e1)
WOf(wf, e) == LET S == {t \in ToSet(wf) : <<t[1], t[2]>> = e} IN IF S = {} THEN 0 ELSE (CHOOSE t \in S : TRUE)[3]
DefaultW(e) == IF e[1] = SRC \/ e[2] = SNK THEN 0 ELSE 1
AWeight(ev, S) == SumOver(S, LAMBDA e : IF ev.arg[1] = <<>> THEN DefaultW(e) ELSE WOf(ev.arg[1], e))
MaxAntichain(a, ev) == Max({AWeight(ev, S) : S \in {T \in SUBSET a.edges : IsAntichain(a, T)}})

Wt2(r, e) == LET S == {i \in 1..Len(r.edges) : r.edges[i] = e} IN IF S = {} THEN 0 ELSE r.ew2[CHOOSE i \in S : TRUE]
MaxReachOfBy(r, e, alt) ==     \* max weight over e itself, edges reachable from its head, edges whose head reaches its tail
  LET a == A(r)
      fwd == {g \in a.edges : g[1] \in ReachFrom(a, e[2])}
      bwd == {g \in a.edges : e[1] \in ReachFrom(a, g[2])}
  IN Max({IF alt THEN Wt2(r, g) ELSE Wt(r, g) : g \in {e} \cup fwd \cup bwd})
MaxReachOf(r, e) == MaxReachOfBy(r, e, FALSE)

(* flow width: the fewest source-to-sink paths of the augmented graph (with repetition) that cover every inner, non-ignored edge
   while no edge is used more often than its flow value (synthetic edges: unbounded).  A second use of the same path covers nothing
   new, so a minimum is a SET of paths: decided over all subsets. *)
APaths(a) == PathsFrom(a, SRC, {SNK})
FlowWidth(r, a, ign) ==
  LET ps == SetToSeq(APaths(a))
      need == {e \in a.edges : e[1] # SRC /\ e[2] # SNK} \ ign
      cap(e) == IF e[1] = SRC \/ e[2] = SNK THEN 99 ELSE Wt(r, e)
      Use(m, e) == SumSeq([i \in 1..Len(ps) |-> IF e \in EdgesOfSeq(ps[i]) THEN m[i] ELSE 0])
      ok(m) == (\A e \in need : Use(m, e) >= 1) /\ (\A e \in a.edges : Use(m, e) <= cap(e))
      sols == {m \in [1..Len(ps) -> 0..1] : ok(m)}
  IN IF sols = {} THEN -1 ELSE Min({SumSeq(m) : m \in sols})
STP(r) == UNION {PathsFrom(UG(r), s, Sinks(UG(r))) : s \in Sources(UG(r))}
Holds(r, ev) ==
  LET a == A(r) IN
  CASE ev.op = "reach"    -> ToSet(ev.rets) = ReachFrom(a, ev.arg[1])
    [] ev.op = "reaching" -> ToSet(ev.rets) = Reaching(a, ev.arg[1])
    [] ev.op = "reach_edges" -> ToSet(ev.rete) = {g \in a.edges : g[1] \in ReachFrom(a, ev.arg[1])}
    [] ev.op = "reach_edges_rev" -> ToSet(ev.rete) = {g \in a.edges : g[2] \in Reaching(a, ev.arg[1])}
    [] ev.op = "is_scc_edge" -> ev.ret = (IF IsSCCEdge(a, <<ev.arg[1], ev.arg[2]>>) THEN 1 ELSE 0)
    [] ev.op = "maxreach" -> /\ {<<t[1], t[2]>> : t \in ToSet(ev.rete)} = a.edges
                             /\ \A t \in ToSet(ev.rete) : t[3] = MaxReachOfBy(r, <<t[1], t[2]>>, ev.arg = <<"alt">>) * UNIT
    [] ev.op = "antichain" -> /\ ToSet(ev.rete) \subseteq a.edges
                              /\ IsAntichain(a, ToSet(ev.rete))
                              /\ AWeight(ev, ToSet(ev.rete)) = ev.ret /\ ev.ret2 = ev.ret
                              /\ ev.ret = MaxAntichain(a, ev)
    [] ev.op = "decompose" -> /\ \A i \in 1..Len(ev.paths) : IsRoute(UG(r), {}, {}, ev.paths[i])
                              /\ Len(ev.weights) = Len(ev.paths) /\ \A i \in 1..Len(ev.weights) : ev.weights[i] >= 1
                              /\ \A e \in UG(r).edges : Explained(e, ev.paths, ev.weights) = Wt(r, e)
    [] ev.op = "bottleneck" -> IF ev.paths = <<>> THEN \A e \in UG(r).edges : TRUE
                               ELSE /\ IsRoute(UG(r), {}, {}, ev.paths[1])
                                    /\ ev.ret = Min({Wt(r, e) : e \in EdgesOfSeq(ev.paths[1])})
                                    /\ \A p \in STP(r) : Min({Wt(r, e) : e \in EdgesOfSeq(p)}) <= ev.ret
    [] ev.op = "scc_stats" ->      \* components counted in member edges (both ends in the component, self-loops included)
         LET comps == {SCCOf(a, v) : v \in a.nodes}
             Size(c) == Cardinality({e \in a.edges : e[1] \in c /\ e[2] \in c})
             nontriv == {c \in comps : Size(c) > 0}
         IN /\ ev.ret = Cardinality(nontriv)
            /\ ev.ret2 = Max({Size(c) : c \in comps} \cup {0})
            /\ ev.ret3 = (IF nontriv = {} THEN 0 ELSE SumOver(nontriv, Size) \div Cardinality(nontriv))
    [] ev.op = "flow_width" -> ev.ret = FlowWidth(r, a, {<<t[1], t[2]>> : t \in ToSet(ev.arg[1])})
    [] ev.op = "max_flow" ->
         LET E == UG(r).edges \ {<<t[1], t[2]>> : t \in ToSet(ev.arg[1])}
         IN E # {} => ev.ret = Max({Wt(r, e) : e \in E}) * UNIT
    [] ev.op = "nonzero" -> ToSet(ev.rete) = {e \in UG(r).edges : Wt(r, e) # 0} \ {<<t[1], t[2]>> : t \in ToSet(ev.arg[1])}
    [] ev.op = "conserves" ->
         LET g == UG(r)
             inner == {v \in g.nodes : In(g, v) # {} /\ Out(g, v) # {}}
         IN ev.ret = (IF \A v \in inner : SumOver(In(g, v), LAMBDA e : Wt(r, e)) = SumOver(Out(g, v), LAMBDA e : Wt(r, e)) THEN 1 ELSE 0)
    [] ev.op = "max_occurrence" ->      \* largest listed length (absent = 1) of seq positions lying on one of the paths
         LET seq == ev.arg[1]  paths == ev.arg[2]  lens == ev.arg[3]
             LenOfE(e) == LET S == {t \in ToSet(lens) : <<t[1], t[2]>> = e} IN IF S = {} THEN 1 ELSE (CHOOSE t \in S : TRUE)[3]
             On(p) == SumOver({j \in 1..Len(seq) : Count(<<seq[j][1], seq[j][2]>>, p) >= 1}, LAMBDA j : LenOfE(<<seq[j][1], seq[j][2]>>))
         IN ev.ret = Max({On(paths[i]) : i \in 1..Len(paths)} \cup {0})
    [] OTHER -> TRUE

Init == tid \in DOMAIN Recs /\ l = 1 /\ bad = {}
Step == /\ l <= Len(R.events)
        /\ bad' = bad \cup (IF Ev.exc # "none" THEN {<<"NoException", l>>}
                            ELSE IF Holds(R, Ev) THEN {} ELSE {<<Ev.op, l>>})
        /\ l' = l + 1 /\ UNCHANGED tid
Spec == Init /\ [][Step]_<<tid, l, bad>>
Verdict == (l > Len(R.events)) => PrintT(<<"VERDICT", R.id, {"AnswersMatchGraph"}, bad>>)
=============================================================================
