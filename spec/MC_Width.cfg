SPECIFICATION Spec
INVARIANT ConstructionMatchesDefinition
CHECK_DEADLOCK FALSE
