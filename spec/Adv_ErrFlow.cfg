SPECIFICATION Spec
CONSTRAINT Explore
INVARIANT NonNeg
CHECK_DEADLOCK FALSE
