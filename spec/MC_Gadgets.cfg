SPECIFICATION Spec
CONSTANT U = 12
INVARIANT BinExact
INVARIANT IntExact
INVARIANT PwExact
CHECK_DEADLOCK FALSE
