------------------------------ MODULE Validation ------------------------------
(***************************************************************************)
(* C19: which malformed inputs each model class must reject with           *)
(* ValueError (at construction, at the latest in solve) - a decision       *)
(* table - and the universe of single and double defects per class.        *)
(***************************************************************************)
EXTENDS Naturals, Sequences, FiniteSets, SequencesExt, TLC

DAGCls == {"MinFlowDecomp", "kFlowDecomp", "kMinPathError", "kLeastAbsErrors", "kPathCover", "MinPathCover"}
CycCls == {"MinFlowDecompCycles", "kFlowDecompCycles", "kMinPathErrorCycles", "kLeastAbsErrorsCycles",
           "kPathCoverCycles", "MinPathCoverCycles"}
Classes == DAGCls \cup CycCls
CoverCls == {"kPathCover", "MinPathCover", "kPathCoverCycles", "MinPathCoverCycles"}
FDCls == {"MinFlowDecomp", "kFlowDecomp", "MinFlowDecompCycles", "kFlowDecompCycles"}
ErrCls == {"kMinPathError", "kLeastAbsErrors", "kMinPathErrorCycles", "kLeastAbsErrorsCycles"}
KCls == {"kFlowDecomp", "kMinPathError", "kLeastAbsErrors", "kPathCover", "kFlowDecompCycles", "kMinPathErrorCycles",
         "kLeastAbsErrorsCycles", "kPathCoverCycles"}
StartCls == Classes \ {"kFlowDecomp"}

Defects == {"nonstring_node", "cyclic_graph", "no_source", "no_sink", "negative_weight", "negative_first_weight", "negative_last_weight", "missing_weight",
            "nonconserving_flow", "nonconserving_behind_zero_flow", "nonconserving_by_one_in_millions", "constraint_absent_edge", "constraint_not_list_of_lists", "constraint_bad_edge_shape",
            "constraint_empty", "coverage_zero", "coverage_above_one", "coverage_negative", "k_zero", "k_negative",
            "k_not_int", "bad_weight_type", "bad_origin", "unknown_start", "unknown_end", "scaling_above_one",
            "scaling_negative", "source_only_self_loop", "sink_only_self_loop", "covlen_zero", "covlen_above_one", "covlen_without_length_attr", "covlen_with_coverage"}

Applies(cls, d) ==
  CASE d = "cyclic_graph" -> cls \in DAGCls
    [] d \in {"no_source", "no_sink", "source_only_self_loop", "sink_only_self_loop"} -> cls \in CycCls
    [] d \in {"negative_weight", "negative_first_weight", "negative_last_weight", "missing_weight", "bad_weight_type"} -> cls \notin CoverCls
    [] d \in {"nonconserving_flow", "nonconserving_behind_zero_flow", "nonconserving_by_one_in_millions"} -> cls \in {"MinFlowDecomp", "kFlowDecomp"}
    [] d \in {"k_zero", "k_negative", "k_not_int"} -> cls \in KCls
    [] d \in {"unknown_start", "unknown_end"} -> cls \in StartCls
    [] d \in {"scaling_above_one", "scaling_negative"} -> cls \in ErrCls
    [] d \in {"covlen_zero", "covlen_above_one", "covlen_without_length_attr", "covlen_with_coverage"} -> cls \in DAGCls
    [] OTHER -> TRUE

(* defects that cannot be combined in one input (they modify the same argument incompatibly) *)
Conflict(a, b) ==
  \/ {a, b} \subseteq {"coverage_zero", "coverage_above_one", "coverage_negative", "covlen_zero", "covlen_above_one",
                      "covlen_without_length_attr", "covlen_with_coverage"}
  \/ {a, b} \subseteq {"k_zero", "k_negative", "k_not_int"}
  \/ {a, b} \subseteq {"constraint_absent_edge", "constraint_not_list_of_lists", "constraint_bad_edge_shape", "constraint_empty"}
  \/ {a, b} \subseteq {"scaling_above_one", "scaling_negative"}
  \/ {a, b} \subseteq {"cyclic_graph", "no_source", "no_sink", "source_only_self_loop", "sink_only_self_loop"}
  \/ {a, b} \subseteq {"negative_weight", "negative_first_weight", "negative_last_weight", "missing_weight", "nonconserving_flow", "nonconserving_behind_zero_flow", "nonconserving_by_one_in_millions"}

(* negative_first_weight / negative_last_weight: the negative value sits on the first / last edge in the iteration order of the
   caller's graph (a check folded into a running maximum or a loop that stops early skips exactly these positions) *)
(* defects that a class does not document as ValueError but that must still never yield a "solved" model *)
(* nonconserving_by_one_in_millions: integer flows in the millions, one inner node off by 1 (conservation is exact, not relative);
   nonconserving_behind_zero_flow: the unbalanced node has only zero-flow edges on one side (it is an inner node all the same) *)
MustNotSolve(cls, d) == d \in {"nonconserving_flow", "nonconserving_behind_zero_flow"} /\ cls \in {"MinFlowDecompCycles", "kFlowDecompCycles"}

(* the specification of fail-closed behaviour: any applicable defect => ValueError, never solved *)
Expected(cls, D) == IF \E d \in D : Applies(cls, d) THEN "ValueError"
                    ELSE IF \E d \in D : MustNotSolve(cls, d) THEN "unsolved" ELSE "accepted"

AppD(cls) == {d \in Defects : Applies(cls, d) \/ MustNotSolve(cls, d)}
Cases == UNION {{<<cls, {a, b}>> : a \in AppD(cls), b \in AppD(cls)} : cls \in Classes}     \* a = b gives the singletons
Valid(c) == \A a, b \in c[2] : a # b => ~Conflict(a, b)
=============================================================================
