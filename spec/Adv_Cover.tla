------------------------------ MODULE Adv_Cover ------------------------------
(***************************************************************************)
(* The cover adversary.  Every set of source-to-sink routes of an instance *)
(* is a behaviour: Start opens a route at the synthetic source, Step(e)    *)
(* extends it and marks e covered, reaching the synthetic sink closes it.  *)
(* The fewest routes covering all required edges (and honouring the        *)
(* constraints) is the least cnt at which Goal is reachable - this is the  *)
(* specification of "minimum path/walk cover" and of "width" (C09), and    *)
(* of the feasibility threshold of k-Minimum-Path-Error (C08).             *)
(*                                                                         *)
(* Records carry r.bound; reaching Goal with cnt <= bound prints           *)
(* <<"WITNESS", id, cnt>>.  With r.want = "min" the runner asks for the    *)
(* exact optimum instead: then EVERY goal is printed (<<"GOAL", id, cnt>>) *)
(* and the runner takes the least one (used for width = optimum).          *)
(* Routes are opened in canonical order (each route must cover a new       *)
(* required edge or newly honour a constraint) to prune permutations.      *)
(***************************************************************************)
EXTENDS Optimum, Json, IOUtils, TLC

Recs == ndJsonDeserialize(IOEnv.TRACE_FILE)

VARIABLES tid, covered, cur, cnt, hit, sat, fresh
vars == <<tid, covered, cur, cnt, hit, sat, fresh>>

R == Recs[tid]
IDLE == "-"
ConsEdges(r) == UNION {ToSet(ECons(r)[j]) : j \in 1..Len(r.cons)}

Init ==
  /\ tid \in DOMAIN Recs
  /\ covered = {} /\ cur = IDLE /\ cnt = 0 /\ hit = {} /\ sat = {} /\ fresh = FALSE

Start ==
  /\ cur = IDLE /\ cnt < R.bound
  /\ cur' = SRC /\ cnt' = cnt + 1 /\ hit' = {} /\ fresh' = FALSE
  /\ UNCHANGED <<tid, covered, sat>>

Step(e) ==
  /\ cur # IDLE
  /\ e \in Out(AG(R), cur)
  /\ covered' = IF e \in Req(R) THEN covered \cup {e} ELSE covered
  /\ LET h == IF e \in ConsEdges(R) THEN hit \cup {e} ELSE hit
         newsat == sat \cup {j \in 1..Len(R.cons) : HonouredBy(R, ECons(R)[j], h)}
         fr == fresh \/ (e \in Req(R) /\ e \notin covered)
     IN IF e[2] = SNK
        THEN /\ (fr \/ newsat # sat)          \* a useless route is never part of a minimum cover
             /\ cur' = IDLE /\ hit' = {} /\ sat' = newsat /\ fresh' = FALSE
        ELSE /\ cur' = e[2] /\ hit' = h /\ sat' = sat /\ fresh' = fr
  /\ UNCHANGED <<tid, cnt>>

Next == Start \/ (\E e \in AG(R).edges : Step(e))
Spec == Init /\ [][Next]_vars

Goal == cur = IDLE /\ covered = Req(R) /\ sat = 1..Len(R.cons)

Explore ==
  IF Goal THEN PrintT(<<"WITNESS", R.id, cnt>>) /\ FALSE
  ELSE ~(cur = IDLE /\ cnt = R.bound)

(* design-level invariants *)
CoveredOnlyRequired == covered \subseteq Req(R)
Monotone == [][covered \subseteq covered' /\ sat \subseteq sat']_vars
=============================================================================
