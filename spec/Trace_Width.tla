----------------------------- MODULE Trace_Width -----------------------------
(***************************************************************************)
(* C09 on graphs too large for the Cover adversary (12-14 nodes, one big   *)
(* strongly connected component): the minimum number of walks covering the *)
(* non-ignored edges equals the width, and Width!ConstructedWidth computes *)
(* it from the condensation (model-checked against the plain definition on *)
(* the small universes, MC_Width.cfg).  A record is one run of a cover     *)
(* model: [cls, nodes, edges, ign, k, solved, count].                      *)
(*   kPathCoverCycles(k)  solved  iff  k >= width                          *)
(*   MinPathCoverCycles   solved, with exactly `width` walks               *)
(***************************************************************************)
EXTENDS Width

TInit == /\ tid \in DOMAIN Recs
         /\ ign = SSE(A(Recs[tid])) \cup {<<e[1], e[2]>> : e \in ToSet(Recs[tid].ign)}
TSpec == TInit /\ [][Next]_<<tid, ign>>
W == ConstructedWidth(A(R), ign)
Fails == IF R.cls = "kPathCoverCycles"
         THEN (IF (R.solved = TRUE) = (R.k >= W) THEN {} ELSE {"kCoverSolvedIffKAtLeastWidth"})
         ELSE (IF R.solved = TRUE /\ R.count = W THEN {} ELSE {"MinCoverUsesWidthManyWalks"})
Verdict == PrintT(<<"VERDICT", R.id, {"kCoverSolvedIffKAtLeastWidth", "MinCoverUsesWidthManyWalks"}, Fails, W>>)
=============================================================================
