SPECIFICATION Spec
CONSTRAINT Explore
CHECK_DEADLOCK FALSE
