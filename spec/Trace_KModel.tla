---------------------------- MODULE Trace_KModel ----------------------------
(***************************************************************************)
(* C13, re-solve: one record = one k-model object driven through a         *)
(* sequence of solve / tighten / get calls (Gen_KModel) with the status of *)
(* chosen solver runs replaced by an inconclusive one.  Events:            *)
(*   solve    [ret, seen (status as the library saw it), invoked, solved]  *)
(*   tighten  [route] - the route the added constraint forbids ([] none)   *)
(*   get      [solved, sol_exc, obj_exc, routes]                           *)
(* The events are replayed through KModel's actions; the clauses compare   *)
(* what the object answered with the specification's state.                *)
(***************************************************************************)
EXTENDS KModel, Json, IOUtils

Recs == ndJsonDeserialize(IOEnv.TRACE_FILE)
VARIABLES tid, l, forb, forbAtProved, bad
tvars == <<ph, ver, proved, lastrun, nops, tid, l, forb, forbAtProved, bad>>
R == Recs[tid]
Ev == R.events[l]

Class(st) == IF st = "kOptimal" THEN "Optimal" ELSE IF st = "kInfeasible" THEN "Infeasible"
             ELSE IF st = "kTimeLimit" THEN "TimeLimit" ELSE IF st = "kInterrupt" THEN "Interrupt"
             ELSE IF st = "custom_timeout" THEN "CustomTimeout" ELSE "Unknown"

TInit == /\ tid \in DOMAIN Recs /\ KInit /\ l = 1 /\ forb = {} /\ forbAtProved = {} /\ bad = {}

Fail(c, cond) == IF cond THEN {} ELSE {<<c, l>>}

TSolve == /\ Ev.op = "solve" /\ Ev.invoked = TRUE
          /\ KSolve(Class(Ev.seen))
          /\ forbAtProved' = (IF Class(Ev.seen) = "Optimal" THEN forb ELSE forbAtProved)
          /\ bad' = bad \cup Fail("SolveReturnsTrueIffOptimal", (Ev.ret = 1) = (Class(Ev.seen) = "Optimal"))
                        \cup Fail("IsSolvedIffLastRunOptimal", (Ev.solved = TRUE) = (Class(Ev.seen) = "Optimal"))
                        \cup Fail("NoException", Ev.exc = "none")
          /\ UNCHANGED forb
(* solve() that did not reach the solver (an exception before it): nothing changes in the specification *)
TSolveNoRun == /\ Ev.op = "solve" /\ Ev.invoked = FALSE
               /\ bad' = bad \cup {<<"SolveRunsTheSolver", l>>}
               /\ UNCHANGED <<ph, ver, proved, lastrun, nops, forb, forbAtProved>>
TTighten == /\ Ev.op = "tighten" /\ KTighten
            /\ forb' = (IF Ev.route = <<>> THEN forb ELSE forb \cup {Ev.route})
            /\ UNCHANGED <<forbAtProved, bad>>
TGet == /\ Ev.op = "get"
        /\ \/ (KGetData /\ bad' = bad \cup Fail("SolvedDeliversData", Ev.sol_exc = "none" /\ Ev.obj_exc = "none" /\ Ev.solved = TRUE)
                                     \cup Fail("DataIsOfTheProvedVersion",
                                               Ev.sol_exc # "none" \/ \A i \in 1..Len(Ev.routes) : Ev.routes[i] \notin forbAtProved))
           \/ (KGetRaises /\ bad' = bad \cup Fail("GettersRaiseUnlessSolved", Ev.sol_exc # "none" /\ Ev.obj_exc # "none")
                                       \cup Fail("NotSolvedReported", Ev.solved = FALSE))
        /\ UNCHANGED <<forb, forbAtProved>>

TNext == l <= Len(R.events) /\ (TSolve \/ TSolveNoRun \/ TTighten \/ TGet) /\ l' = l + 1 /\ UNCHANGED tid
TSpec == TInit /\ [][TNext]_tvars

AllClauses == {"SolveReturnsTrueIffOptimal", "IsSolvedIffLastRunOptimal", "NoException", "SolveRunsTheSolver",
               "SolvedDeliversData", "DataIsOfTheProvedVersion", "GettersRaiseUnlessSolved", "NotSolvedReported"}
Verdict == (l > Len(R.events)) => PrintT(<<"VERDICT", R.id, AllClauses, {b[1] : b \in bad}>>)
=============================================================================
