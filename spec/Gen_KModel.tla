----------------------------- MODULE Gen_KModel -----------------------------
(* Operation sequences for the k-model lifecycle (C13): every sequence of length D over solve (fault-free or with an
   injected inconclusive status), tighten and get; printed as <<"KHISTORY", ops>>.  The status a fault-free run ends with
   is not chosen here - it is whatever the real solver reports and is read from the trace. *)
EXTENDS Naturals, Sequences, TLC
CONSTANT D
Ops == {<<"solve", "none">>, <<"solve", "kTimeLimit">>, <<"solve", "kInterrupt">>, <<"solve", "custom_timeout">>,
        <<"tighten">>, <<"get">>}
VARIABLE h
Init == h = <<>>
Next == Len(h) < D /\ \E o \in Ops : h' = Append(h, o)
Spec == Init /\ [][Next]_h
(* at least one solve, and not two tightenings in a row at the very end (nothing would observe them) *)
Useful == \E i \in 1..Len(h) : h[i][1] = "solve"
Emit == (Len(h) = D /\ Useful) => PrintT(<<"KHISTORY", h>>)
=============================================================================
