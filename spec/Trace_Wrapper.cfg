SPECIFICATION TSpec
CONSTANTS
  Vars = {"x1", "x2", "x3"}
  Vals = {0, 1, 2, 3}
  Costs <- CostsGen
  Offsets = {0, 3}
CONSTRAINT Verdict
CHECK_DEADLOCK FALSE
