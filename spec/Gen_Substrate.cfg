SPECIFICATION SSpec
CONSTANTS
  NI = 6
  EI = 6
  D = 8
CONSTRAINT Emit
PROPERTY CacheOnlyGrows
CHECK_DEADLOCK FALSE
