------------------------------ MODULE GraphFile ------------------------------
(***************************************************************************)
(* The package's graph file format (C20) as a grammar with its meaning.    *)
(*                                                                         *)
(*   file   ::= block, block, ...       -- one or more                     *)
(*   block  ::= header lines, then any number of S-lines and comment       *)
(*              lines, then blank lines, then the count line, then edges   *)
(*              (blank lines anywhere in a block carry no meaning)         *)
(*   header ::= "# text" | "#"         -- the first header line is the id  *)
(*                                        (a bare "#": the empty id)       *)
(*   S-line ::= "#S n1 n2 ..."         -- a subpath constraint             *)
(*   fields of S-lines and edge lines are separated by whitespace: a       *)
(*   space or a tab (Separators)                                           *)
(*   count  ::= integer                -- number of vertices               *)
(*   edge   ::= "u v w"                                                    *)
(*                                                                         *)
(* Meaning of a well-formed block: a graph with exactly the listed edges   *)
(* and weights, id = text of the first header, one subpath constraint per  *)
(* DISTINCT S-line with at least 2 nodes (its consecutive pairs), n and m  *)
(* = node and edge counts (a block with count 0 is the empty graph: no     *)
(* edges, an EMPTY list of constraints, counts not stored).  A block with a malformed edge line (2 or 4     *)
(* fields), a non-numeric weight or vertex count (also an integer followed *)
(* by another token), or a constraint edge                                 *)
(* that is not in the graph makes read_graphs raise ValueError.            *)
(* Blocks are described abstractly (BlockDescs); Lines / Meaning give the  *)
(* concrete text and the expected result.                                  *)
(***************************************************************************)
EXTENDS Naturals, Sequences, FiniteSets, SequencesExt, TLC

Shapes == <<
  << <<"a", "b", 5>>, <<"b", "c", 3>>, <<"b", "d", 2>> >>,                      \* DAG
  << <<"s", "a", 2>>, <<"a", "b", 4>>, <<"b", "a", 2>>, <<"b", "t", 2>> >>,     \* with a cycle
  << <<"0", "1", 7>> >>,                                                       \* single edge, numeric names
  << <<"x", "y", 1>>, <<"x", "z", 1>>, <<"y", "w", 1>>, <<"z", "w", 1>> >>,    \* diamond
  << >>,                                                                       \* the empty graph: count line 0, no edge lines
  << <<"s", "b", 2>>, <<"s", "c", 1>>, <<"b", "c", 3>>, <<"c", "b", 1>>, <<"c", "t", 3>> >> >>   \* a source fanning into a cycle: two edges
                                                                               \* from one node into the same component (width 2)
ConsOf(sh) == CASE sh = 5 -> <<>> [] sh = 6 -> <<"s", "b", "c">> [] sh = 1 -> <<"a", "b", "c">> [] sh = 2 -> <<"s", "a", "b">> [] sh = 3 -> <<"0", "1">> [] sh = 4 -> <<"x", "y", "w">>

Corruptions == {"none", "edge_2_fields", "edge_4_fields", "weight_not_numeric", "count_not_numeric", "count_trailing_token",
                "constraint_absent_edge"}
ConsKinds == {"none", "one", "duplicate", "single_node", "two"}

Separators == {"space", "tab"}        \* the field separator of S-lines and edge lines: any whitespace separates fields
(* nhead: 1 one header line with text, 2 two of them, 3 a bare "#" followed by a header line with text, 4 a bare "#" only *)
BlockDescs == [shape : 1..Len(Shapes), nhead : 1..4, cons : ConsKinds, blanks : 0..2, extra : BOOLEAN, corr : Corruptions,
               sep : Separators]       \* blanks: 0 none, 1 a blank line before the count line, 2 a blank line inside the edge list
(* the empty graph comes plain: no S-lines, no corruption, no blank line inside an edge list that does not exist *)
EmptyOK(b) == Shapes[b.shape] = <<>> => (b.cons = "none" /\ b.corr = "none" /\ b.blanks # 2)
Sep(b) == IF b.sep = "tab" THEN "\t" ELSE " "

RECURSIVE JoinSp(_, _)
JoinSp(s, sp) == IF Len(s) = 0 THEN "" ELSE IF Len(s) = 1 THEN s[1] ELSE s[1] \o sp \o JoinSp(Tail(s), sp)
NodesOf(edges) == {edges[i][1] : i \in 1..Len(edges)} \cup {edges[i][2] : i \in 1..Len(edges)}

ConsLines(b) ==
  LET c == ConsOf(b.shape)
      rev == <<c[2], c[1]>>      \* a second, different constraint?  only valid if that edge exists: use a prefix instead
  IN CASE b.cons = "none" -> <<>>
       [] b.cons = "one" -> <<"#S" \o Sep(b) \o JoinSp(c, Sep(b))>>
       [] b.cons = "duplicate" -> <<"#S" \o Sep(b) \o JoinSp(c, Sep(b)), "#S" \o Sep(b) \o JoinSp(c, Sep(b))>>
       [] b.cons = "single_node" -> <<"#S" \o Sep(b) \o c[1]>>
       [] b.cons = "two" -> <<"#S" \o Sep(b) \o JoinSp(c, Sep(b)), "#S" \o Sep(b) \o JoinSp(SubSeq(c, 1, 2), Sep(b))>>

EdgeLine(e, corr, first, sp) ==
  IF ~first \/ corr \notin {"edge_2_fields", "edge_4_fields", "weight_not_numeric"} THEN e[1] \o sp \o e[2] \o sp \o ToString(e[3])
  ELSE IF corr = "edge_2_fields" THEN e[1] \o sp \o e[2]
  ELSE IF corr = "edge_4_fields" THEN e[1] \o sp \o e[2] \o sp \o ToString(e[3]) \o sp \o "9"
  ELSE e[1] \o sp \o e[2] \o sp \o "abc"

Lines(b, idtxt) ==
  LET edges == Shapes[b.shape] IN
  <<IF b.nhead >= 3 THEN "#" ELSE "# " \o idtxt>> \o (IF b.nhead \in {2, 3} THEN <<"# second header line">> ELSE <<>>)
  \o ConsLines(b)
  \o (IF b.corr = "constraint_absent_edge" THEN <<"#S" \o Sep(b) \o edges[1][2] \o Sep(b) \o edges[1][1]>> ELSE <<>>)
  \o (IF b.extra THEN <<"# an extra comment">> ELSE <<>>)
  \o (IF b.blanks = 1 THEN <<"">> ELSE <<>>)
  \o <<IF b.corr = "count_not_numeric" THEN "four"
       ELSE IF b.corr = "count_trailing_token" THEN ToString(Cardinality(NodesOf(edges))) \o Sep(b) \o "x"   \* an integer followed by junk is not a count
       ELSE ToString(Cardinality(NodesOf(edges)))>>
  \o (LET el == [i \in 1..Len(edges) |-> EdgeLine(edges[i], b.corr, i = Len(edges), Sep(b))]
      IN IF b.blanks = 2 /\ Len(el) >= 2 THEN <<el[1], "">> \o SubSeq(el, 2, Len(el)) ELSE el)

Pairs(c) == [i \in 1..(Len(c) - 1) |-> <<c[i], c[i + 1]>>]
ConsMeaning(b) ==
  LET c == ConsOf(b.shape) IN
  CASE b.cons \in {"none", "single_node"} -> <<>>
    [] b.cons \in {"one", "duplicate"} -> <<Pairs(c)>>
    [] b.cons = "two" -> IF SubSeq(c, 1, 2) = c THEN <<Pairs(c)>>       \* identical S-lines count once
                         ELSE <<Pairs(c), Pairs(SubSeq(c, 1, 2))>>

Meaning(b, idtxt) ==
  LET edges == Shapes[b.shape] IN
  [id |-> IF b.nhead >= 3 THEN "" ELSE idtxt,      \* the FIRST header line, whatever follows it
   edges |-> edges, constraints |-> ConsMeaning(b),
   n |-> Cardinality(NodesOf(edges)), m |-> Len(edges)]
IsCorrupt(b) == b.corr # "none"
(* the constraint "absent edge" line u v reversed is absent unless the reverse edge exists (shape 2 has a<->b) *)
WellDefined(b) == EmptyOK(b) /\ (b.corr = "constraint_absent_edge" =>
                    ~\E i \in 1..Len(Shapes[b.shape]) : Shapes[b.shape][i][1] = Shapes[b.shape][1][2] /\ Shapes[b.shape][i][2] = Shapes[b.shape][1][1])
=============================================================================
