---------------------------- MODULE Trace_Models ----------------------------
(***************************************************************************)
(* Trace validation of observed executions of the path/walk model classes. *)
(*                                                                         *)
(* The harness (harness/drive_models.py) writes one JSON record per        *)
(* execution: the instance, the configuration and everything the public    *)
(* API returned.  This module has one initial state per record and decides *)
(* every applicable clause of the specification on it; the verdict         *)
(*      <<"VERDICT", id, applicable clauses, failed clauses>>              *)
(* is printed from the initial-state predicate.  Nothing is judged in      *)
(* Python.  Clause names are grouped per property in ClausesOf(prop).      *)
(***************************************************************************)
EXTENDS Problems, Json, IOUtils, TLC

UNIT == 10000            \* fixed-point unit of the harness
NONE == -999999          \* the harness's "absent" sentinel

Recs == ndJsonDeserialize(IOEnv.TRACE_FILE)
PROP == IOEnv.VERIF_PROP

VARIABLE tid

Get(r, key, default) == IF key \in DOMAIN r THEN r[key] ELSE default

DAGCls   == {"MinFlowDecomp", "kFlowDecomp", "kMinPathError", "kLeastAbsErrors", "kPathCover", "MinPathCover"}
CycCls   == {"MinFlowDecompCycles", "kFlowDecompCycles", "kMinPathErrorCycles", "kLeastAbsErrorsCycles",
             "kPathCoverCycles", "MinPathCoverCycles"}
CoverCls == {"kPathCover", "MinPathCover", "kPathCoverCycles", "MinPathCoverCycles"}
FDCls    == {"MinFlowDecomp", "kFlowDecomp", "MinFlowDecompCycles", "kFlowDecompCycles"}
LAECls   == {"kLeastAbsErrors", "kLeastAbsErrorsCycles"}
MPECls   == {"kMinPathError", "kMinPathErrorCycles"}
MinCls   == {"MinFlowDecomp", "MinFlowDecompCycles", "MinPathCover", "MinPathCoverCycles"}
KCls     == (DAGCls \cup CycCls) \ MinCls

(***************************************************************************)
(* The instance as mathematics.                                            *)
(***************************************************************************)
UG(r) == MkGraph(ToSet(r.nodes), ToSet(r.edges))          \* the caller's graph
NodeMode(r) == r.mode = "node"
EdgeIdx(r, e) == CHOOSE i \in 1..Len(r.edges) : r.edges[i] = e
NodeIdx(r, v) == CHOOSE i \in 1..Len(r.nodes) : r.nodes[i] = v
Fx(r, w) == (w * r.num * UNIT) \div r.den                 \* datum -> fixed point
(* elements = edges (edge mode) or nodes (node mode) *)
Elems(r) == IF NodeMode(r) THEN ToSet(r.nodes) ELSE ToSet(r.edges)
Datum(r, x) == IF NodeMode(r) THEN r.nw[NodeIdx(r, x)] ELSE r.ew[EdgeIdx(r, x)]
HasDatum(r, x) == Datum(r, x) # NONE
Ignored(r) == ToSet(r.ign) \cup {t[1] : t \in {s \in ToSet(r.escale) : s[2] = 0}} \cup PctIgnored(r)
(* the elements whose value must be explained / covered *)
Required(r) == IF r.cls \in CoverCls
               THEN Elems(r) \ Ignored(r)
               ELSE {x \in Elems(r) \ Ignored(r) : HasDatum(r, x)}
F(r) == [x \in Required(r) |-> IF r.cls \in CoverCls THEN 0 ELSE Fx(r, Datum(r, x))]
Starts(r) == ToSet(r.starts)
Ends(r)   == ToSet(r.ends)
ScaleOf(r, x) ==   \* <<n, d>> error scale of element x (default 1)
  LET S == {s \in ToSet(r.escale) : s[1] = x}
  IN IF S = {} THEN <<1, 1>> ELSE LET s == CHOOSE s \in S : TRUE IN <<s[2], s[3]>>

IntTyped(r) == r.wt = "int"
Tol(r) == IF IntTyped(r) THEN 0 ELSE 5                   \* per term, in 1/UNIT

Solved(r) == r.solved = TRUE /\ r.timeout = FALSE
HasSol(r) == Solved(r) /\ r.got_solution = TRUE /\ r.sol_exc = "none"
Routes(r) == r.routes
NonEmptyIdx(r) == {i \in 1..Len(Routes(r)) : Len(Routes(r)[i]) >= 1}
EmptyAllowed(r) == \/ Get(r.opt, "allow_empty_paths", FALSE) = TRUE
                   \/ Get(r.opt, "allow_empty_walks", FALSE) = TRUE
                   \/ r.sws # <<>>
KGiven(r) == r.k # NONE

(***************************************************************************)
(* Measure of a route for the element kind of the record.                  *)
(***************************************************************************)
Uses(r, x, p) == IF NodeMode(r) THEN Visits(x, p) ELSE Count(x, p)
Expl(r, x) == SumSeq([i \in 1..Len(Routes(r)) |-> r.weights[i] * Uses(r, x, Routes(r)[i])])
Trav(r, x) == SumSeq([i \in 1..Len(Routes(r)) |-> Uses(r, x, Routes(r)[i])])
SlackOn(r, x) == SumSeq([i \in 1..Len(Routes(r)) |-> r.slacks[i] * Uses(r, x, Routes(r)[i])])

(***************************************************************************)
(* Path-length factors (kMinPathError): the slack of a path counts with    *)
(* the factor of the range its LENGTH falls in.  The length of a path is   *)
(* the sum of the lengths of its edges in the graph the model works on,    *)
(* INCLUDING the edges from the global source and to the global sink (1    *)
(* each): without a length attribute every edge counts 1 (in node mode the *)
(* node edges and the link edges of the expansion); with one, an element   *)
(* without the attribute counts 1, link edges of the expansion count 0     *)
(* unless the user's edge has a length itself.                             *)
(***************************************************************************)
UsesLenAttr(r) == "lenattr" \in DOMAIN r /\ r.lenattr = TRUE
RouteLen(r, p) ==
  2 + (IF NodeMode(r)
       THEN IF UsesLenAttr(r)
            THEN SumSeq([i \in 1..Len(p) |-> NodeLenOr(r, p[i], 1)]) + SumSeq([i \in 1..(Len(p) - 1) |-> EdgeLenOr(r, <<p[i], p[i + 1]>>, 0)])
            ELSE 2 * Len(p) - 1
       ELSE IF UsesLenAttr(r)
            THEN SumSeq([i \in 1..(Len(p) - 1) |-> EdgeLenOr(r, <<p[i], p[i + 1]>>, 1)])
            ELSE Len(p) - 1)
RangeOf(r, L) == {i \in 1..Len(r.plr) : r.plr[i][1] <= L /\ L <= r.plr[i][2]}
HasFactor(r, p) == RangeOf(r, RouteLen(r, p)) # {}
FactorOf(r, p) == r.plf[CHOOSE i \in RangeOf(r, RouteLen(r, p)) : TRUE]      \* <<n, d>>
PlfDen(r) == LET RECURSIVE M(_)
                 M(i) == IF i = 0 THEN 1 ELSE M(i - 1) * r.plf[i][2]
             IN M(Len(r.plf))
(* sum over routes of slack * factor * traversals, times PlfDen(r) (an integer) *)
ScaledSlackOnTimesDen(r, x) ==
  SumSeq([i \in 1..Len(Routes(r)) |->
            IF Len(Routes(r)[i]) = 0 THEN 0
            ELSE (r.slacks[i] * FactorOf(r, Routes(r)[i])[1] * PlfDen(r) * Uses(r, x, Routes(r)[i])) \div FactorOf(r, Routes(r)[i])[2]])

(* the user-graph element an entry [u, v, err, type] of the reported edge errors speaks about
   (node mode: the expanded edge (v.0, v.1) stands for node v; link edges stand for nothing) *)
ErrElem(r, t) ==
  IF NodeMode(r)
  THEN LET V == {v \in ToSet(r.nodes) : Dot0(v) = t[1] /\ Dot1(v) = t[2]}
       IN IF V = {} THEN "?none" ELSE CHOOSE v \in V : TRUE
  ELSE <<t[1], t[2]>>

(***************************************************************************)
(* Clauses.  Applicable(c, r) says when clause c speaks about record r;    *)
(* Holds(c, r) is its content.                                             *)
(***************************************************************************)
WeightsAligned(r) == r.has_weights = TRUE /\ Len(r.weights) = Len(Routes(r))

Applicable(c, r) ==
  CASE c = "NodesOfG"        -> HasSol(r)
    [] c = "EdgesOfG"        -> HasSol(r)
    [] c = "StartsOK"        -> HasSol(r)
    [] c = "EndsOK"          -> HasSol(r)
    [] c = "SimpleIfDAG"     -> HasSol(r) /\ r.cls \in DAGCls
    [] c = "RoutesKey"       -> HasSol(r)
    [] c = "OneWeightPerRoute" -> HasSol(r) /\ r.cls \notin CoverCls
    [] c = "OneSlackPerRoute"  -> HasSol(r) /\ r.cls \in MPECls
    [] c = "NonNegative"     -> HasSol(r) /\ r.cls \notin CoverCls
    [] c = "AtMostK"         -> HasSol(r) /\ r.cls \in KCls /\ KGiven(r)
    [] c = "ExactlyK"        -> HasSol(r) /\ r.cls \in KCls /\ KGiven(r) /\ ~EmptyAllowed(r)
                                /\ r.starts = <<>> /\ r.ends = <<>>
    [] c = "NoEmptyRoute"    -> HasSol(r) /\ ~EmptyAllowed(r)
    [] c = "EmptyRemovalIsAFilter" -> HasSol(r) /\ "keep_routes" \in DOMAIN r
    [] c = "GetSolutionReturns" -> Solved(r)
    [] c = "FDExact"         -> HasSol(r) /\ r.cls \in FDCls /\ WeightsAligned(r)
    [] c = "WeightTypes"     -> HasSol(r) /\ r.cls \notin CoverCls /\ r.has_weights = TRUE
    [] c = "Covers"          -> HasSol(r) /\ r.cls \in CoverCls
    [] c = "MPEInequality"   -> HasSol(r) /\ r.cls \in MPECls /\ WeightsAligned(r)
                                /\ r.has_slacks = TRUE /\ Len(r.slacks) = Len(Routes(r))
    [] c = "MPEObjective"    -> HasSol(r) /\ r.cls \in MPECls /\ r.has_slacks = TRUE /\ r.obj # NONE
    [] c = "LAEErrors"       -> HasSol(r) /\ r.cls \in LAECls /\ WeightsAligned(r) /\ r.has_errs = TRUE
    [] c = "LAEObjective"    -> HasSol(r) /\ r.cls \in LAECls /\ WeightsAligned(r) /\ r.obj # NONE
    [] c = "SelfCheckAccepts" -> HasSol(r) /\ r.cls \in (LAECls \cup MPECls \cup FDCls \cup CoverCls)
    [] c = "ObjIsCount"      -> HasSol(r) /\ r.cls \in (FDCls \cup CoverCls) /\ r.cls \in MinCls
    [] c = "ConstraintsHonoured" -> HasSol(r) /\ r.cons # <<>>
    [] c = "Succeeds"        -> r.expect_solved = TRUE
    [] c = "PlantedValid"    -> r.proutes # <<>> /\ r.cls \in FDCls /\ r.ign = <<>>
    [] c = "NoCrash"         -> TRUE
    [] c = "NoCrashPlain"    -> TRUE
    [] c = "AcceptedWithoutError" -> TRUE
    [] OTHER -> FALSE

ConsAsEdges(r, c) ==   \* a constraint of the record as a sequence of user-graph elements
  c
RouteHonours(r, c, p) ==
  LET n == r.cov[1]  d == r.cov[2] IN
  IF r.cls \in DAGCls /\ UsesLengthCoverage(r) THEN RouteHonoursByLength(r, c, p)
  ELSE IF r.cls \in DAGCls /\ r.mode = "node" /\ r.cons_kind # "node"
  THEN  \* edge-form constraint in node mode: the fraction is taken over the items of its expansion (node, link, node, ...)
       LET xc == XCons(r, c) IN Cardinality({j \in 1..Len(xc) : XOn(xc[j], p)}) * d >= Len(xc) * n
  ELSE IF r.cons_kind = "node"
  THEN  \* node constraints: a list of nodes; coverage counted over listed nodes
       Cardinality({j \in 1..Len(c) : Visits(c[j], p) >= 1}) * d >= Len(c) * n
  ELSE IF r.cls \in DAGCls THEN HonouredList(c, p, n, d) ELSE HonouredSet(c, p, n, d)

Holds(c, r) ==
  LET g == UG(r) IN
  CASE c = "NodesOfG"   -> \A i \in NonEmptyIdx(r) : NodesOK(g, Routes(r)[i])
    [] c = "EdgesOfG"   -> \A i \in NonEmptyIdx(r) : EdgesOK(g, Routes(r)[i])
    [] c = "StartsOK"   -> \A i \in NonEmptyIdx(r) : StartOK(g, Starts(r), Routes(r)[i])
    [] c = "EndsOK"     -> \A i \in NonEmptyIdx(r) : EndOK(g, Ends(r), Routes(r)[i])
    [] c = "SimpleIfDAG" -> \A i \in NonEmptyIdx(r) : Simple(Routes(r)[i])
    [] c = "RoutesKey"  -> /\ r.routes_key = (IF r.cls \in DAGCls THEN "paths" ELSE "walks")
                           /\ r.routes_nonstr = FALSE
    [] c = "OneWeightPerRoute" -> WeightsAligned(r) /\ \A i \in 1..Len(r.weights) : r.weights[i] # NONE
    [] c = "OneSlackPerRoute"  -> r.has_slacks = TRUE /\ Len(r.slacks) = Len(Routes(r))
                                  /\ \A i \in 1..Len(r.slacks) : r.slacks[i] # NONE
    [] c = "NonNegative" -> /\ \A i \in 1..Len(r.weights) : r.weights[i] >= -Tol(r)
                            /\ \A i \in 1..Len(r.slacks)  : r.slacks[i]  >= -Tol(r)
    [] c = "AtMostK"    -> Cardinality(NonEmptyIdx(r)) <= r.k       \* (empty layers of a weight-superset model are not routes)
    [] c = "ExactlyK"   -> Len(Routes(r)) = r.k
    [] c = "NoEmptyRoute" -> \A i \in 1..Len(Routes(r)) : Len(Routes(r)[i]) >= 1
    [] c = "EmptyRemovalIsAFilter" ->
         \* get_solution(remove_empty_paths / remove_empty_walks = True) is get_solution(... = False) without its empty routes:
         \* same routes in the same order, each with the weight (and slack) of its own layer
         LET keep == r.keep_routes
             idx == SelectSeq([i \in 1..Len(keep) |-> i], LAMBDA i : keep[i] # <<>>)
         IN /\ r.drop_routes = [j \in 1..Len(idx) |-> keep[idx[j]]]
            /\ Len(r.keep_weights) = Len(keep) /\ r.drop_weights = [j \in 1..Len(idx) |-> r.keep_weights[idx[j]]]
            /\ (r.keep_slacks # <<>> => (Len(r.keep_slacks) = Len(keep) /\ r.drop_slacks = [j \in 1..Len(idx) |-> r.keep_slacks[idx[j]]]))
    [] c = "GetSolutionReturns" -> r.got_solution = TRUE /\ r.sol_exc = "none"
    [] c = "FDExact"    -> \A x \in Required(r) :
                              Abs(Expl(r, x) - F(r)[x]) <= Tol(r) * Max2(1, Trav(r, x))
    [] c = "WeightTypes" -> \A i \in 1..Len(r.wtypes) : r.wtypes[i] = r.wt
    [] c = "Covers"     -> \A x \in Required(r) : Trav(r, x) >= 1
    [] c = "MPEInequality" ->
          IF r.plr = <<>>
          THEN \A x \in Required(r) :
                 LET s == ScaleOf(r, x) IN
                 Abs(F(r)[x] - Expl(r, x)) * s[1] <= (SlackOn(r, x) + Tol(r) * Max2(1, 2 * Trav(r, x))) * s[2]
          ELSE \* with path-length factors: every returned path has a length some range contains, and the slacks count
               \* with the factor of that range
               /\ \A i \in NonEmptyIdx(r) : HasFactor(r, Routes(r)[i])
               /\ \A x \in Required(r) :
                    LET s == ScaleOf(r, x) IN
                    Abs(F(r)[x] - Expl(r, x)) * s[1] * PlfDen(r)
                      <= (ScaledSlackOnTimesDen(r, x) + Tol(r) * PlfDen(r) * Max2(1, 2 * Trav(r, x))) * s[2]
    [] c = "MPEObjective" -> Abs(r.obj - SumSeq(r.slacks)) <= Tol(r) * Max2(1, Len(r.slacks))
    [] c = "LAEErrors"  ->
          \* every reported per-element error equals the recomputed |f - explained|
          \A t \in ToSet(r.errs) :
             LET x == ErrElem(r, t) IN
             x \in Required(r) => Abs(t[3] - Abs(F(r)[x] - Expl(r, x))) <= Tol(r) * Max2(1, 2 * Trav(r, x))
    [] c = "LAEObjective" ->
          \* reported objective = sum of scale * recomputed error  (compare n/d exactly: common denominator 100)
          LET tot == SumOver(Required(r), LAMBDA x : (Abs(F(r)[x] - Expl(r, x)) * ScaleOf(r, x)[1] * 100) \div ScaleOf(r, x)[2])
              terms == SumOver(Required(r), LAMBDA x : Max2(1, Trav(r, x)))
          IN Abs(r.obj * 100 - tot) <= (Tol(r) * terms + 1) * 100
    [] c = "SelfCheckAccepts" -> r.valid = 1
    [] c = "ObjIsCount" -> r.obj = Len(Routes(r)) * UNIT
    [] c = "ConstraintsHonoured" ->
          \A j \in 1..Len(r.cons) : \E i \in NonEmptyIdx(r) : RouteHonours(r, r.cons[j], Routes(r)[i])
    [] c = "Succeeds"   -> r.timeout = FALSE /\ r.ctor_exc = "none" /\ r.solve_exc = "none" /\ r.solve_ret = 1 /\ Solved(r)
    [] c = "PlantedValid" ->
          \* the generator's claim "this flow is the superposition of these routes" re-validated here
          LET w == [i \in 1..Len(r.pweights) |-> Fx(r, r.pweights[i])] IN
          /\ \A i \in 1..Len(r.proutes) : IsRoute(g, Starts(r), Ends(r), r.proutes[i])
          /\ \A x \in Required(r) :
                SumSeq([i \in 1..Len(r.proutes) |-> w[i] * Uses(r, x, r.proutes[i])]) = F(r)[x]
    [] c = "NoCrash"    -> /\ (r.ctor_exc = "none" \/ (r.ctor_exc = "ValueError" /\ r.documented_incompat = TRUE))
                           /\ (r.solve_exc = "none" \/ (r.solve_exc = "ValueError" /\ r.documented_incompat = TRUE))
                           /\ r.sol_exc \in {"none", "Exception"} /\ r.process_exit = FALSE /\ r.timeout = FALSE
    [] c = "AcceptedWithoutError" -> r.ctor_exc = "none" /\ r.solve_exc = "none" /\ r.process_exit = FALSE
    [] c = "NoCrashPlain" -> /\ r.ctor_exc \in {"none", "ValueError"} /\ r.solve_exc \in {"none", "ValueError"}
                             /\ r.sol_exc \in {"none", "Exception"} /\ r.process_exit = FALSE
    [] OTHER -> TRUE

ClausesOf(p) ==
  CASE p = "C01" -> {"NodesOfG", "EdgesOfG", "StartsOK", "EndsOK", "SimpleIfDAG", "RoutesKey",
                     "OneWeightPerRoute", "OneSlackPerRoute", "NonNegative", "AtMostK", "ExactlyK",
                     "NoEmptyRoute", "GetSolutionReturns", "EmptyRemovalIsAFilter"}
    [] p = "C02" -> {"FDExact", "WeightTypes", "GetSolutionReturns", "OneWeightPerRoute", "NonNegative"}
    [] p = "C03" -> {"Succeeds", "PlantedValid", "FDExact", "NodesOfG", "EdgesOfG", "StartsOK", "EndsOK",
                     "ConstraintsHonoured", "ObjIsCount", "OneWeightPerRoute"}
    [] p = "C04" -> {"Succeeds", "PlantedValid", "FDExact", "NodesOfG", "EdgesOfG", "StartsOK", "EndsOK",
                     "ConstraintsHonoured", "ObjIsCount", "OneWeightPerRoute"}
    [] p = "C05" -> {"NoCrash"}
    [] p = "C11" -> {"NodesOfG", "EdgesOfG", "StartsOK", "EndsOK", "SimpleIfDAG", "NoCrashPlain",
                     "NoEmptyRoute", "OneWeightPerRoute", "FDExact", "Covers"}      \* (what comes back in node mode is a full answer)
    [] p = "C19" -> {"AcceptedWithoutError"}
    [] p = "C07" -> {"LAEErrors", "LAEObjective", "SelfCheckAccepts", "ExactlyK", "OneWeightPerRoute"}
    [] p = "C08" -> {"Succeeds", "MPEInequality", "MPEObjective", "OneSlackPerRoute", "OneWeightPerRoute", "NonNegative",
                     "NodesOfG", "EdgesOfG", "StartsOK", "EndsOK"}
    [] p = "C09" -> {"Succeeds", "Covers", "NodesOfG", "EdgesOfG", "StartsOK", "EndsOK", "ConstraintsHonoured", "ObjIsCount"}
    [] p = "C10" -> {"ConstraintsHonoured", "NodesOfG", "EdgesOfG", "StartsOK", "EndsOK", "FDExact", "Covers",
                     "MPEInequality", "LAEObjective", "Succeeds"}
    [] p = "ALL" -> {"NodesOfG", "EdgesOfG", "StartsOK", "EndsOK", "SimpleIfDAG", "RoutesKey",
                     "OneWeightPerRoute", "OneSlackPerRoute", "NonNegative", "AtMostK", "ExactlyK",
                     "NoEmptyRoute", "GetSolutionReturns", "FDExact", "WeightTypes", "Covers",
                     "MPEInequality", "MPEObjective", "LAEErrors", "LAEObjective", "SelfCheckAccepts",
                     "ObjIsCount", "ConstraintsHonoured"}
    [] OTHER -> {}

App(r)   == {c \in ClausesOf(PROP) : Applicable(c, r)}
Fails(r) == {c \in App(r) : ~Holds(c, r)}

Init == /\ tid \in DOMAIN Recs
        /\ PrintT(<<"VERDICT", Recs[tid].id, App(Recs[tid]), Fails(Recs[tid])>>)
Next == FALSE /\ tid' = tid
Spec == Init /\ [][Next]_tid
=============================================================================
