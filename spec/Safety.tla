------------------------------- MODULE Safety -------------------------------
(***************************************************************************)
(* Exact characterisation of safety, incompatibility and sound pruning     *)
(* (C06) by reachability in a product automaton - no bound on the length   *)
(* of walks is needed.                                                     *)
(*                                                                         *)
(* A is an augmented graph (Graphs!Augment) with synthetic source SRC and  *)
(* sink SNK; a sequence is a tuple of edges of A.  A walk CONTAINS a       *)
(* sequence S when S is a subsequence of its edge sequence (in order, with *)
(* multiplicity); greedy matching decides containment, so the progress     *)
(* j \in 0..Len(S) is a deterministic function of the walk prefix.         *)
(*                                                                         *)
(*   ProdReach(A, S1, S2) = states <<node, j1, j2>> reachable from         *)
(*   <<SRC,0,0>> in A x progress(S1) x progress(S2)      (least fixpoint)  *)
(*                                                                         *)
(* THEOREM (safety).  Let X be a set of items (edge sequences; a trusted   *)
(* edge e is the item <<e>>).  S is contained in some walk of EVERY        *)
(* SRC-SNK walk cover of X  iff  for some item x in X every SRC-SNK walk   *)
(* containing x contains S.                                                *)
(*   <= : the walk of the cover that contains x contains S.                *)
(*   => : otherwise pick for every x a walk W_x containing x but not S;    *)
(*        {W_x} is a cover of X none of whose walks contains S.            *)
(* "every walk containing x contains S" is the unreachability of           *)
(* <<SNK, j < Len(S), Len(x)>> in the product.                             *)
(***************************************************************************)
EXTENDS Graphs

Adv(S, j, e) == IF j < Len(S) /\ S[j + 1] = e THEN j + 1 ELSE j

ProdReach(A, S1, S2) ==
  LET Succs(st) == {<<e[2], Adv(S1, st[2], e), Adv(S2, st[3], e)>> : e \in Out(A, st[1])}
      RECURSIVE L(_)
      L(R) == LET F == UNION {Succs(x) : x \in R} \ R IN IF F = {} THEN R ELSE L(R \cup F)
  IN L({<<SRC, 0, 0>>})

(* every SRC-SNK walk containing item X contains S *)
ForcedBy(A, S, X) ==
  ~ \E st \in ProdReach(A, S, X) : st[1] = SNK /\ st[2] < Len(S) /\ st[3] = Len(X)
(* some SRC-SNK walk contains X at all (otherwise X has no cover and "safe" is vacuous) *)
Coverable(A, X) == \E st \in ProdReach(A, X, <<>>) : st[1] = SNK /\ st[2] = Len(X)

SafeFor(A, S, Xs) == \E X \in Xs : Coverable(A, X) /\ ForcedBy(A, S, X)

(* some SRC-SNK walk contains both S1 and S2 *)
Compatible(A, S1, S2) ==
  \E st \in ProdReach(A, S1, S2) : st[1] = SNK /\ st[2] = Len(S1) /\ st[3] = Len(S2)

(* forbidding edge e in the slot that must contain S loses no walk *)
PruneSound(A, S, e) == ~Compatible(A, S, <<e>>)

(***************************************************************************)
(* Brute-force counterparts over walks with at most n edges, used by       *)
(* MC_Safety to validate the product construction.                         *)
(***************************************************************************)
RECURSIVE IsSubseqFrom(_, _, _, _)
IsSubseqFrom(W, i, S, j) ==     \* W: sequence of edges
  IF j > Len(S) THEN TRUE
  ELSE IF i > Len(W) THEN FALSE
  ELSE IF W[i] = S[j] THEN IsSubseqFrom(W, i + 1, S, j + 1) ELSE IsSubseqFrom(W, i + 1, S, j)
ContainsSeq(W, S) == IsSubseqFrom(W, 1, S, 1)

RECURSIVE EdgeWalksFrom(_, _, _)
EdgeWalksFrom(A, v, n) ==     \* edge sequences of walks from v to SNK with <= n edges
  (IF v = SNK THEN {<<>>} ELSE {})
  \cup (IF n = 0 THEN {} ELSE UNION {{<<e>> \o w : w \in EdgeWalksFrom(A, e[2], n - 1)} : e \in Out(A, v)})
STWalksUpTo(A, n) == EdgeWalksFrom(A, SRC, n)

ForcedByBF(A, S, X, n) == \A W \in STWalksUpTo(A, n) : ContainsSeq(W, X) => ContainsSeq(W, S)
CompatibleBF(A, S1, S2, n) == \E W \in STWalksUpTo(A, n) : ContainsSeq(W, S1) /\ ContainsSeq(W, S2)
=============================================================================
