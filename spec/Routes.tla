------------------------------- MODULE Routes -------------------------------
(***************************************************************************)
(* What it means for a sequence of nodes to be a source-to-sink route of   *)
(* the *caller's* graph (property C01), and how often / how completely a   *)
(* route uses edges and constraints (C02, C09, C10).                       *)
(***************************************************************************)
EXTENDS Graphs

(* number of traversals of edge e by node sequence p *)
Count(e, p) == Cardinality({i \in 1..(Len(p) - 1) : p[i] = e[1] /\ p[i+1] = e[2]})
(* number of visits of node v *)
Visits(v, p) == Cardinality({i \in 1..Len(p) : p[i] = v})

NodesOK(G, p)  == \A i \in 1..Len(p) : p[i] \in G.nodes
EdgesOK(G, p)  == \A i \in 1..(Len(p) - 1) : <<p[i], p[i+1]>> \in G.edges
StartOK(G, starts, p) == Len(p) >= 1 => p[1] \in Sources(G) \cup starts
EndOK(G, ends, p)     == Len(p) >= 1 => p[Len(p)] \in Sinks(G) \cup ends
Simple(p) == \A i, j \in 1..Len(p) : i # j => p[i] # p[j]

(* the C01 predicate *)
IsRoute(G, starts, ends, p) ==
  /\ Len(p) >= 1
  /\ NodesOK(G, p) /\ EdgesOK(G, p)
  /\ StartOK(G, starts, p) /\ EndOK(G, ends, p)

(* Strip the synthetic endpoints of a route of Augment(G, ..) *)
Strip(p) == SubSeq(p, 2, Len(p) - 1)

(* every second node of an expanded route, ".0" suffix removed -- the     *)
(* inverse of Graphs!Expand on routes; defined on node *names* by the     *)
(* caller-supplied inverse map inv (a function from expanded names).      *)
Condense(p, inv) == [i \in 1..(Len(p) \div 2) |-> inv[p[2 * i - 1]]]

(***************************************************************************)
(* Constraints.  A DAG subpath constraint is a *list* of edges; a path     *)
(* covers as many of its entries as it contains (an entry listed twice     *)
(* counts twice, as in the library's encoding 7a).  A subset constraint    *)
(* (cyclic models) is a *set*.                                             *)
(***************************************************************************)
ListCoverage(c, p) == Cardinality({j \in 1..Len(c) : Count(c[j], p) >= 1})
SetCoverage(c, p)  == Cardinality({e \in ToSet(c) : Count(e, p) >= 1})
(* coverage fraction n/d honoured:  cover * d >= len * n *)
HonouredList(c, p, n, d) == ListCoverage(c, p) * d >= Len(c) * n
HonouredSet(c, p, n, d)  == SetCoverage(c, p) * d >= Cardinality(ToSet(c)) * n

(* does the node sequence p contain the edge sequence S in order (greedy,  *)
(* with multiplicity)?  -- the notion "occurs inside a walk" of C06.       *)
RECURSIVE MatchFrom(_, _, _, _)
MatchFrom(p, i, S, j) ==
  IF j > Len(S) THEN TRUE
  ELSE IF i >= Len(p) THEN FALSE
  ELSE IF p[i] = S[j][1] /\ p[i+1] = S[j][2] THEN MatchFrom(p, i + 1, S, j + 1)
  ELSE MatchFrom(p, i + 1, S, j)
HasSubseq(p, S) == MatchFrom(p, 1, S, 1)
=============================================================================
