SPECIFICATION Spec
CONSTRAINT Explore
INVARIANT Sorted
CHECK_DEADLOCK FALSE
