--------------------------- MODULE Trace_Validation ---------------------------
(* C19 trace validation against the decision table Validation!Expected. *)
EXTENDS Validation, Json, IOUtils
Recs == ndJsonDeserialize(IOEnv.TRACE_FILE)
VARIABLE tid
Exc(r) == IF r.ctor_exc # "none" THEN r.ctor_exc ELSE r.solve_exc
Clauses(r) == IF Expected(r.cls, ToSet(r.defects)) = "ValueError" THEN {"RejectedWithValueError", "NeverSolved"}
              ELSE IF Expected(r.cls, ToSet(r.defects)) = "unsolved" THEN {"NeverSolved", "NoCrashOnUndocumentedDefect"}
              ELSE {"AcceptedWithoutError"}
Holds(c, r) == CASE c = "RejectedWithValueError" -> Exc(r) = "ValueError"
                 [] c = "NeverSolved" -> r.solved = FALSE
                 [] c = "AcceptedWithoutError" -> Exc(r) = "none"
                 [] c = "NoCrashOnUndocumentedDefect" -> Exc(r) \in {"none", "ValueError"}
Fails(r) == {c \in Clauses(r) : ~Holds(c, r)}
TInit == /\ tid \in DOMAIN Recs /\ PrintT(<<"VERDICT", Recs[tid].id, Clauses(Recs[tid]), Fails(Recs[tid])>>)
TNext == FALSE /\ tid' = tid
TSpec == TInit /\ [][TNext]_tid
=============================================================================
