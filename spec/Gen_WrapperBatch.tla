-------------------------- MODULE Gen_WrapperBatch --------------------------
(* Directed call histories for C12 that random simulation practically never produces: three variables with pairwise
   different bounds, then a BATCH of queued requests naming them in every order (all 6 permutations) with every mix of
   lower-bound / fix requests, then optimize and read back.  Each history is a behaviour of Wrapper.tla (checked again by
   Trace_Wrapper); printed as <<"HISTORY", h>>. *)
EXTENDS Naturals, Sequences, FiniteSets, TLC
V == <<"x1", "x2", "x3">>
Perms == {p \in [1..3 -> 1..3] : \A i, j \in 1..3 : i # j => p[i] # p[j]}
Kinds == [1..3 -> {"lb", "fix"}]
Hist(ubs, ord, kinds, sense) ==
  [i \in 1..3 |-> <<"add", V[i], 0, ubs[i]>>]
  \o [i \in 1..3 |-> <<kinds[i], V[ord[i]], 1>>]
  \o << <<"obj", <<<<"x1", 2>>, <<"x2", 2>>, <<"x3", 2>>>>, sense, 0>>, <<"opt">>, <<"get", V>> >>
All == {Hist(u, o, k, s) : u \in Perms, o \in Perms, k \in Kinds, s \in {"minimize", "maximize"}}
ASSUME \A h \in All : PrintT(<<"HISTORY", h>>)
VARIABLE x
Init == x = 0
Next == FALSE /\ x' = x
Spec == Init /\ [][Next]_x
=============================================================================
