---------------------------- MODULE Gen_Validation ----------------------------
EXTENDS Validation, Json, IOUtils
ASSUME ndJsonSerialize(IOEnv.OUT_FILE,
         SetToSeq({[cls |-> c[1], defects |-> SetToSeq(c[2]), expected |-> Expected(c[1], c[2])] : c \in {k \in Cases : Valid(k)}}))
VARIABLE x
Init == x = 0
Next == FALSE /\ x' = x
Spec == Init /\ [][Next]_x
=============================================================================
