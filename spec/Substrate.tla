------------------------------ MODULE Substrate ------------------------------
(***************************************************************************)
(* The s-t graph classes' cached query interface (C17) as a state machine: *)
(* the state is WHICH answers are cached; the answer to a query is a       *)
(* function of the graph alone.  Query histories (with repetitions, i.e.   *)
(* warm caches) are behaviours of this machine over abstract node / edge   *)
(* indices; Gen_Substrate emits them, the harness maps indices onto each   *)
(* concrete graph.                                                         *)
(***************************************************************************)
EXTENDS Naturals, Sequences, FiniteSets, TLC
CONSTANTS NI, EI, D       \* number of node indices, edge indices, history length
VARIABLES cF, cB, cW, h
svars == <<cF, cB, cW, h>>
SInit == cF = {} /\ cB = {} /\ cW = FALSE /\ h = <<>>
Reach(i)    == /\ i \in 1..NI /\ cF' = cF \cup {i} /\ h' = Append(h, <<"reach", i>>) /\ UNCHANGED <<cB, cW>>
Reaching(i) == /\ i \in 1..NI /\ cB' = cB \cup {i} /\ h' = Append(h, <<"reaching", i>>) /\ UNCHANGED <<cF, cW>>
SccEdge(j)  == /\ j \in 1..EI /\ h' = Append(h, <<"is_scc_edge", j>>) /\ UNCHANGED <<cF, cB, cW>>
MaxReach    == /\ h' = Append(h, <<"maxreach">>) /\ UNCHANGED <<cF, cB, cW>>
Width       == /\ cW' = TRUE /\ h' = Append(h, <<"width", 0>>) /\ UNCHANGED <<cF, cB>>
WidthIgn(j) == /\ j \in 1..EI /\ h' = Append(h, <<"width", j>>) /\ UNCHANGED <<cF, cB, cW>>
SNext == \/ \E i \in 1..NI : Reach(i) \/ Reaching(i)
         \/ \E j \in 1..EI : SccEdge(j) \/ WidthIgn(j)
         \/ MaxReach \/ Width
SSpec == SInit /\ [][SNext]_svars
CacheOnlyGrows == [][cF \subseteq cF' /\ cB \subseteq cB' /\ (cW => cW')]_svars
Emit == (Len(h) = D) => PrintT(<<"HISTORY", h>>)
=============================================================================
