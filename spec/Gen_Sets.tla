------------------------------- MODULE Gen_Sets -------------------------------
(* Universes for C15: number lists / totals / multiplicities for MinGenSet, set-cover families for MinSetCover. *)
EXTENDS GenSet, Json, IOUtils, TLC
MaxN  == atoi(IOEnv.GEN_MAXN)      \* numbers from 1..MaxN
MaxL  == atoi(IOEnv.GEN_MAXL)      \* list length
MaxT  == atoi(IOEnv.GEN_MAXT)      \* total
Cap   == atoi(IOEnv.GEN_CAP)

Spread(S, cap) == LET s == SetToSeq(S)  n == Len(s)
                  IN IF n <= cap THEN S ELSE {s[1 + ((i * n) \div cap)] : i \in 0..(cap - 1)}

GenInsts ==
  {[kind |-> "genset", numbers |-> SetToSeq(N), total |-> T, mult |-> m] :
      N \in {X \in SUBSET (1..MaxN) : X # {} /\ Cardinality(X) <= MaxL},
      T \in 1..MaxT, m \in 1..3}
Feasible(i) == \A j \in 1..Len(i.numbers) : i.numbers[j] <= i.mult * i.total

U == 1..4
Fam == {F \in SUBSET ((SUBSET U) \ {{}}) : Cardinality(F) \in 2..4}
CoverInsts ==
  {[kind |-> "setcover", universe |-> SetToSeq(U), subsets |-> [i \in 1..Len(SetToSeq(F)) |-> SetToSeq(SetToSeq(F)[i])],
    weights |-> w] : F \in Spread(Fam, Cap), w \in {<<1, 1, 1, 1>>, <<1, 2, 3, 1>>, <<3, 1, 1, 2>>}}

ASSUME ndJsonSerialize(IOEnv.OUT_FILE, SetToSeq(Spread({i \in GenInsts : Feasible(i)}, Cap)) \o SetToSeq(CoverInsts))
VARIABLE x
Init == x = 0
Next == FALSE /\ x' = x
Spec == Init /\ [][Next]_x
=============================================================================
