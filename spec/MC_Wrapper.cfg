SPECIFICATION WSpec
CONSTANTS
  Vars = {"x1", "x2"}
  Vals = {0, 1}
  Costs <- CostsSmall
  Offsets = {0, 3}
INVARIANT TypeOK
PROPERTY QueueIsInvisible
PROPERTY LBLeavesUB
CHECK_DEADLOCK FALSE
