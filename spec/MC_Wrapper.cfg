SPECIFICATION WSpec
CONSTANTS
  Vars = {"x1", "x2"}
  Vals = {0, 1, 2}
  Costs <- CostsSmall
INVARIANT TypeOK
PROPERTY QueueIsInvisible
PROPERTY LBLeavesUB
CHECK_DEADLOCK FALSE
