------------------------------ MODULE Trace_Sets ------------------------------
(* C15 trace validation: MinGenSet validity / MinSetCover validity and optimality (GenSet.tla). *)
EXTENDS GenSet, Json, IOUtils, TLC
UNIT == 10000
Recs == ndJsonDeserialize(IOEnv.TRACE_FILE)
VARIABLE tid
Solved(r) == r.solved = TRUE
Abs(x) == IF x < 0 THEN -x ELSE x
IsInt(r) == \A i \in 1..Len(r.sol_list) : r.sol_list[i] % UNIT = 0
G(r) == [i \in 1..Len(r.sol_list) |-> r.sol_list[i] \div UNIT]

Clauses(r) ==
  IF r.cls = "MinGenSet"
  THEN {"NoCrash"} \cup (IF Solved(r) THEN {"GenSetValid", "TypesAsRequested"} ELSE {})
  ELSE {"NoCrash", "SolvedIffCoverExists"} \cup (IF Solved(r) THEN {"CoverValid", "CoverMinimumWeight", "AsSubsetsIsTheSameAnswer"} ELSE {})

Chosen(r) == {r.sol_list[i] \div UNIT + 1 : i \in 1..Len(r.sol_list)}    \* 0-based indices returned
Holds(c, r) ==
  CASE c = "NoCrash" -> r.ctor_exc = "none" /\ r.solve_exc = "none" /\ (Solved(r) => r.sol_exc = "none")
    [] c = "GenSetValid" ->
         IF r.wt = "int" THEN IsInt(r) /\ GenSetValid(G(r), r.numbers, r.total, r.mult, r.pcs)
         ELSE \* float generators: the same definition in fixed point, with a rounding allowance per generator
              LET g == r.sol_list  tol == 5 * (1 + Len(r.sol_list)) IN
              /\ \A i \in 1..Len(g) : g[i] >= -5
              /\ Abs(SumSeq(g) - r.total * UNIT) <= tol
              /\ \A i \in 1..Len(r.numbers) : \E x \in Sums(g, r.mult) : Abs(x - r.numbers[i] * UNIT) <= tol
    [] c = "TypesAsRequested" -> \A i \in 1..Len(r.sol_list_types) : r.sol_list_types[i] = r.wt
    [] c = "SolvedIffCoverExists" -> Solved(r) <=> (MinCoverWeight(ToSet(r.universe), r.subsets, r.sweights) # -1)
    [] c = "CoverValid" -> /\ Chosen(r) \subseteq 1..Len(r.subsets)
                           /\ Covers(ToSet(r.universe), r.subsets, Chosen(r))
    [] c = "AsSubsetsIsTheSameAnswer" ->      \* get_solution(as_subsets=True): the chosen subsets themselves, in the order of the indices
         /\ "sol_as_subsets" \in DOMAIN r /\ Len(r.sol_as_subsets) = Len(r.sol_list)
         /\ \A i \in 1..Len(r.sol_list) : r.sol_list[i] \div UNIT + 1 \in 1..Len(r.subsets)
                                            /\ r.sol_as_subsets[i] = r.subsets[r.sol_list[i] \div UNIT + 1]
    [] c = "CoverMinimumWeight" -> Weight(r.sweights, Chosen(r)) = MinCoverWeight(ToSet(r.universe), r.subsets, r.sweights)
Fails(r) == {c \in Clauses(r) : ~Holds(c, r)}
Init == /\ tid \in DOMAIN Recs /\ PrintT(<<"VERDICT", Recs[tid].id, Clauses(Recs[tid]), Fails(Recs[tid])>>)
Next == FALSE /\ tid' = tid
Spec == Init /\ [][Next]_tid
=============================================================================
