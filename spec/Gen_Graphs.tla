------------------------------ MODULE Gen_Graphs ------------------------------
(* Serialises graph universes with planted flows.  Parameters via environment:
   GEN_KIND  = "dag" | "cyc";  GEN_N = node bound;  GEN_MAXE = edge bound (cyc);
   GEN_K = max planted routes;  GEN_W = max planted weight;  GEN_L = walk length slack (cyc);
   GEN_CAP = max flows per graph;  GEN_PART/GEN_PARTS = modulo partition of the shapes;  OUT_FILE = destination.                              *)
EXTENDS Universe, Json, IOUtils, TLC

Kind == IOEnv.GEN_KIND
N    == atoi(IOEnv.GEN_N)
MaxE == atoi(IOEnv.GEN_MAXE)
K    == atoi(IOEnv.GEN_K)
W    == atoi(IOEnv.GEN_W)
L    == atoi(IOEnv.GEN_L)
Cap  == atoi(IOEnv.GEN_CAP)
Nm   == NamesOf(IOEnv.GEN_SCHEME)
AllowZero == IOEnv.GEN_ZERO = "1"      \* also emit flows that leave some edges at 0 (conserving, non-negative)

Part  == atoi(IOEnv.GEN_PART)      \* this process handles shapes with index = Part (mod Parts)
Parts == atoi(IOEnv.GEN_PARTS)

AllShapes == IF Kind = "dag" THEN DAGShapes(N) ELSE IF Kind = "motif" THEN MotifShapes ELSE CycShapes(N, MaxE)
Shapes == LET s == SetToSeq(AllShapes) IN {s[i] : i \in {j \in 1..Len(s) : j % Parts = Part}}

RoutesOf(G) == IF Kind = "dag" \/ (Kind = "motif" /\ IsDAG(G)) THEN STPaths(G) ELSE STWalks(G, Cardinality(G.edges) + L)

(* distinct positive planted flows of G, each with one witness planting *)
PlantedOf(G) ==
  LET R == RoutesOf(G)
      P == UNION {Plantings(R, 1..W, k) : k \in 1..K}
      Pos == {p \in P : AllowZero \/ PositiveOn(G, FlowOf(G, p[1], p[2]))}
      Flows == {FlowOf(G, p[1], p[2]) : p \in Pos}
  IN {<<f, CHOOSE p \in Pos : FlowOf(G, p[1], p[2]) = f>> : f \in Flows}

(* take at most Cap elements of a set, evenly spread over TLC's normalised order *)
Spread(S, cap) ==
  LET s == SetToSeq(S)  n == Len(s)
  IN IF n <= cap THEN S ELSE {s[1 + ((i * n) \div cap)] : i \in 0..(cap - 1)}

EdgeSeq(E) == SetToSeq(E)

Inst(E, pf) ==
  LET es == EdgeSeq(E)
      f  == pf[1]
      ns == SetToSeq(Touched(E))
  IN [nodes |-> [i \in 1..Len(ns) |-> Nm[ns[i]]],
      edges |-> [i \in 1..Len(es) |-> <<Nm[es[i][1]], Nm[es[i][2]]>>],
      ew    |-> [i \in 1..Len(es) |-> f[es[i]]],
      nw    |-> [i \in 1..Len(ns) |-> ExplainedNode(ns[i], pf[2][1], pf[2][2])],
      proutes |-> [i \in 1..Len(pf[2][1]) |-> [j \in 1..Len(pf[2][1][i]) |-> Nm[pf[2][1][i][j]]]],
      pweights |-> pf[2][2]]

All == UNION {{Inst(E, pf) : pf \in Spread(PlantedOf(IdxGraph(E)), Cap)} : E \in Shapes}

ASSUME PrintT(<<"GEN", Kind, Cardinality(Shapes), Cardinality(All)>>)
ASSUME ndJsonSerialize(IOEnv.OUT_FILE, SetToSeq(All))

VARIABLE x
Init == x = 0
Next == FALSE /\ x' = x
Spec == Init /\ [][Next]_x
=============================================================================
