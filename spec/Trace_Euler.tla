----------------------------- MODULE Trace_Euler -----------------------------
(***************************************************************************)
(* C14 conformance: for every multiplicity assignment handed to the real   *)
(* reconstruction, the walk it returned must be ONE source-to-sink walk of *)
(* the caller's graph that traverses every edge of the augmented graph     *)
(* exactly its multiplicity; the all-zero assignment yields the empty      *)
(* walk.  (The state machine of the algorithm itself is Euler.tla.)        *)
(***************************************************************************)
EXTENDS Routes, Json, IOUtils, TLC

Recs == ndJsonDeserialize(IOEnv.TRACE_FILE)
VARIABLE tid

UG(r) == MkGraph(ToSet(r.unodes), ToSet(r.uedges))
Full(w) == <<SRC>> \o w \o <<SNK>>
AllZero(vec) == \A i \in 1..Len(vec) : vec[i] = 0

SumOver(S, F(_)) == LET RECURSIVE Go(_)
                        Go(T) == IF T = {} THEN 0 ELSE LET x == CHOOSE y \in T : TRUE IN F(x) + Go(T \ {x})
                    IN Go(S)

LayerOK(r, i) ==
  LET vec == r.layers[i]  w == r.walks[i] IN
  IF AllZero(vec) THEN w = <<>>
  ELSE /\ IsRoute(UG(r), {}, {}, w)
       /\ \A j \in 1..Len(r.edges) : Count(r.edges[j], Full(w)) = vec[j]
       /\ Len(Full(w)) - 1 = SumOver(1..Len(vec), LAMBDA j : vec[j])    \* no invented edge

Fails(r) == IF r.exc # "none" \/ Len(r.walks) # Len(r.layers) THEN {"Returns"}
            ELSE IF \A i \in 1..Len(r.layers) : LayerOK(r, i) THEN {} ELSE {"WalkUsesEveryEdgeExactly"}
Init == /\ tid \in DOMAIN Recs
        /\ PrintT(<<"VERDICT", Recs[tid].id, {"Returns", "WalkUsesEveryEdgeExactly"}, Fails(Recs[tid])>>)
Next == FALSE /\ tid' = tid
Spec == Init /\ [][Next]_tid
=============================================================================
