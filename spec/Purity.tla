------------------------------- MODULE Purity -------------------------------
(***************************************************************************)
(* C18: a model's result depends only on its own arguments; caller data is *)
(* never mutated.                                                          *)
(*                                                                         *)
(* The caller owns a pool of objects (two graphs, two option dicts, one    *)
(* solver-options dict, a constraint list, an ignore list); "omit" means   *)
(* the argument is not passed (the callee's mutable default is used).      *)
(* val[o] is the abstract VALUE of pool object o.  Every action of the     *)
(* library leaves val unchanged (PoolUnchanged), and the result of a       *)
(* model is a function Result(cls, values of its arguments) - it does not  *)
(* depend on what happened to other models before (history independence).  *)
(* Histories are behaviours of this machine; Gen via `tlc -simulate`.      *)
(***************************************************************************)
EXTENDS Naturals, Sequences, FiniteSets, TLC
CONSTANTS NCls,        \* number of model classes (indices)
          D            \* history length
Graphs == {"g1", "g2", "g3"}      \* g3: g1 with an invalid (negative) value on one edge
Opts == {"o1", "o2", "o3", "o4", "omit"} \* o4: {optimize_with_safety_as_subset_constraints: True} (safe sequences join the model's OWN constraint list);  o3: {use_subgraph_scanning_lowerbound: True} (the scan window is set small)
SOpts == {"s1", "omit"}
Cons == {"c1", "c0", "omit"}        \* c0: an EMPTY caller-owned constraint list
Igns == {"i1", "i0", "omit"}        \* i0: an EMPTY caller-owned ignore list
Scals == {"e1", "omit"}             \* error-scaling dict (scale 0 on the edge that is invalid in g3)
Slots == 1..3
Pool == {"g1", "g2", "g3", "o1", "o2", "o3", "o4", "s1", "c1", "c0", "i1", "i0", "e1", "t1"}   \* t1: list of trusted edges, passed to every class accepting one

VARIABLES val,       \* pool object -> abstract value (initially the object's own name: "pristine")
          model,     \* slot -> [cls, g, o, s, c, i] or "none"
          phase,     \* slot -> "none" | "built" | "solved"
          h
pvars == <<val, model, phase, h>>

PInit == /\ val = [o \in Pool |-> "pristine"]
         /\ model = [m \in Slots |-> <<>>] /\ phase = [m \in Slots |-> "none"] /\ h = <<>>

Construct(m, cls, g, o, s, c, i, e) ==
  /\ cls \in 1..NCls /\ g \in Graphs /\ o \in Opts /\ s \in SOpts /\ c \in Cons /\ i \in Igns /\ e \in Scals
  /\ model' = [model EXCEPT ![m] = <<cls, g, o, s, c, i, e>>]
  /\ phase' = [phase EXCEPT ![m] = "solved"]              \* histories construct and solve in one step
  /\ val' = val                                        \* the constructor copies what it needs
  /\ h' = h \o << <<"construct", m, cls, g, o, s, c, i, e>>, <<"solve", m>> >>
Solve(m) == /\ phase[m] \in {"built", "solved"} /\ phase' = [phase EXCEPT ![m] = "solved"]
            /\ val' = val /\ UNCHANGED model /\ h' = Append(h, <<"solve", m>>)
Get(m) == /\ phase[m] = "solved" /\ val' = val /\ UNCHANGED <<model, phase>> /\ h' = Append(h, <<"get", m>>)

PNext == \/ \E m \in Slots, cls \in 1..NCls, g \in Graphs, o \in Opts, s \in SOpts, c \in Cons, i \in Igns, e \in Scals : Construct(m, cls, g, o, s, c, i, e)
         \/ \E m \in Slots : Solve(m) \/ Get(m)
PSpec == PInit /\ [][PNext]_pvars
PoolUnchanged == \A o \in Pool : val[o] = "pristine"
Emit == (Len(h) >= D) => PrintT(<<"HISTORY", h>>)
=============================================================================
